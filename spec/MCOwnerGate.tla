---------------------------- MODULE MCOwnerGate ----------------------------
(***************************************************************************)
(* Bounded model of the owner listener for C13: every history of at most   *)
(* MaxLen requests, drawn from the request alphabet below, over at most    *)
(* MaxGen session keys.  TLC                                               *)
(*   MC   checks GateSound (OwnerGate.tla) on EVERY transition, and        *)
(*   GEN  prints, for every transition, the history that ends with it      *)
(*        ("REPLAY" lines): the stimulus the harness runs on the real      *)
(*        OwnerAPIHandlerV3.                                               *)
(* `hist` is hidden behind VIEW, so the state graph is the graph of handler *)
(* states and every (state, request) pair is one edge.                     *)
(***************************************************************************)
EXTENDS OwnerGate, Json

CONSTANTS MaxGen,      \* session keys the client may derive
          MaxAcct,     \* accounts create_account_path may add
          MaxLen,      \* requests per history
          TamperSet,   \* subset of Tampers used for the tampered variants
          OuterSet,    \* subset of Outers
          RawSet,      \* subset of RawKinds
          RepInner,    \* methods carried by tampered / oddly wrapped envelopes
          FullProduct, \* TRUE: every tamper x outer combination; FALSE: one dimension at a time
          Open0Set,    \* initial wallet state(s): subset of BOOLEAN
          ForeignSet   \* running_foreign: subset of BOOLEAN

VARIABLES st, hist, o0
vars == <<st, hist, o0>>

\* ------------------------------------------------------------ the alphabet
Keys(s) == (1..s.ngen) \cup {-1}
PlainReqs == {Plain(m, "call") : m \in Methods} \cup {Plain(m, "notif") : m \in NotifMethods}
C(m) == Plain(m, "call")
N(m) == Plain(m, "notif")
Batches == { <<C("accounts"), C("tld")>>,         \* two reads
             <<C("init"), C("tld")>>,             \* key exchange hidden in a batch
             <<C("init"), C("init")>>,
             <<C("new_account"), C("close")>>,    \* write + lifecycle
             <<C("open"), C("tld")>>,
             <<N("new_account"), C("accounts")>>, \* a notification with an effect
             <<N("tld")>>,                        \* only notifications: no reply
             <<Raw("number"), C("new_account")>>, \* a scalar member: nothing may run
             <<Raw("nomethod"), C("tld")>>,       \* an invalid call next to a valid one
             <<>> }
\* what an envelope may carry
InnerReqs(s) ==
  PlainReqs \cup {Batch(b) : b \in Batches} \cup {Raw(w) : w \in RawSet}
  \cup {Enc(k, "none", o, C(m)) : k \in Keys(s), o \in {"ok"} \cup (OuterSet \cap {"noid", "seq"}), m \in {"tld", "new_account"}}
\* tampered / oddly wrapped variants (never the pristine <<"none","ok">>)
Variants == (IF FullProduct THEN TamperSet \X OuterSet
             ELSE {<<t, "ok">> : t \in TamperSet} \cup {<<"none", o>> : o \in OuterSet}
                  \cup {<<"body", "other">>, <<"nonce_ext", "strid">>}) \ {<<"none", "ok">>}
EncReqs(s) ==
  {Enc(k, "none", "ok", i) : k \in Keys(s), i \in InnerReqs(s)}
  \cup {Enc(k, v[1], v[2], C(m)) : k \in Keys(s), v \in Variants, m \in RepInner}
\* an eavesdropper sends an earlier envelope of this history again
Replays == {Replay(i, hist[i]) : i \in {j \in DOMAIN hist : Replayable(hist[j])}}
TopReqs(s) == PlainReqs \cup EncReqs(s) \cup {Batch(b) : b \in Batches} \cup {Raw(w) : w \in RawSet} \cup Replays

\* --------------------------------------------------------------- behaviour
Init == /\ o0 \in Open0Set
        /\ \E fg \in ForeignSet : st = InitState(o0, fg)
        /\ hist = <<>>
Next == /\ Len(hist) < MaxLen
        /\ \E q \in TopReqs(st) :
             LET h == Handle(st, q) IN
             /\ h.st.ngen <= MaxGen /\ h.st.nacct <= MaxAcct
             /\ st' = h.st
             /\ hist' = Append(hist, q)
        /\ UNCHANGED o0
Spec == Init /\ [][Next]_vars
View == <<st, o0>>

\* --------------------------------------------------------------- checking
TypeOK == /\ st.sess \in 0..MaxGen /\ st.ngen \in 0..MaxGen /\ st.sess <= st.ngen
          /\ st.open \in BOOLEAN /\ st.active \in {"", "a0", "a1"} /\ (st.open <=> st.active # "")
          /\ st.nacct \in 0..MaxAcct /\ st.fg \in BOOLEAN

Q == hist'[Len(hist')]
H == Handle(st, Q)
Eff == H.touch \/ H.mtouch \/ H.st.open # st.open \/ H.st.active # st.active \/ H.st.nacct # st.nacct
Nk == IF H.resp.nkeys > 0 THEN H.st.ngen ELSE 0
\* GateSound on every transition of the model; a failure prints the history (the runner replays
\* it on the real code before anything is reported)
Failing == {i \in 1..7 : ~GateHolds(i, st.sess, Q, H.resp, Eff, H.st.sess, Nk, TRUE)}
Prop_Gate ==
  [][IF Failing = {} THEN TRUE
     ELSE PrintT(<<"CEX", ToJson([inv |-> GateMonitors[CHOOSE i \in Failing : TRUE],
                                  hist |-> [open0 |-> o0, foreign |-> st.fg, reqs |-> hist']])>>) /\ FALSE]_vars

\* --------------------------------------------------------------- generation
\* loop = the request leaves the model state unchanged: the runner chains such requests after a
\* common prefix into one history (each is still executed in exactly the state the edge starts from)
EmitEdges == [][PrintT(<<"REPLAY", ToJson([open0 |-> o0, foreign |-> st.fg, reqs |-> hist', loop |-> (st' = st)])>>)]_vars

\* vacuity witnesses: each must be REACHABLE (checked by the runner as violated "invariants")
W_Rotated    == ~(st.sess >= 2)                              \* a key was superseded
W_OpenActive == ~(st.open /\ st.active = "a1" /\ st.sess >= 1) \* volatile wallet state changed under a session
W_Stored     == ~(st.nacct >= 1)                             \* the store was written
W_Desync     == ~(st.ngen > st.sess /\ st.sess >= 1)         \* Dev_BatchInitNoRotate happened
=============================================================================
