CONSTANTS
  Inits = {"fresh", "funded", "pendsend", "pendrecv", "done"}
  MaxHist = 1
  MaxGen = 2
  HistOps <- HistOpsShort
  UseNode = TRUE
  UseClose = TRUE
SPECIFICATION Spec
INVARIANT TypeOK
INVARIANT Inv_Twin
INVARIANT Inv_Tokens
PROPERTY Prop_Mask
PROPERTY EmitCases
VIEW View
CHECK_DEADLOCK FALSE
