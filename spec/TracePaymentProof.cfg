\* trace validation, Layer P + Layer M.  Dev as on the pinned tree; lib/prop_C11.py rewrites the Dev line from the known-findings status
CONSTANTS
  CheckM = TRUE
  Dev = {"LateLockTrustsReply", "StrippedUnnoticed", "LockTrustsSlate", "SenderKeyFromActive"}
SPECIFICATION TSpec
POSTCONDITION Consumed
CHECK_DEADLOCK FALSE
