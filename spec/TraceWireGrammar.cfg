CONSTANTS
  Depth = "thorough"
  OverflowChecks = FALSE
  CheckM = TRUE
  PanicSites <- PinnedPanicSites
SPECIFICATION TSpec
POSTCONDITION Consumed
CHECK_DEADLOCK FALSE
