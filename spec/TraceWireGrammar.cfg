CONSTANTS
  Depth = "thorough"
  OverflowChecks = FALSE
  CheckM = TRUE
  PanicSites = {"armor.rs::decode#range-start", "armor.rs::decode#range-end",
                "types.rs::try_decrypt_payload#range-end", "types.rs::try_decrypt_payload#split_off",
                "types.rs::try_decrypt_payload#unreachable",
                "v4_bin.rs::ProofWrap::read#unwrap",
                "ser.rs::option_dalek_sig_serde::deserialize#range-end", "ser.rs::dalek_sig_serde::deserialize#range-end",
                "grin_keychain::BlindingFactor::from_hex#unwrap", "grin_keychain::Identifier::from_hex#unwrap",
                "grin_util::from_hex#char-boundary", "lmdb.rs::get_stored_tx#unwrap",
                "ed25519::Signature::new#invalid-signature", "grin_secp256k1zkp::RangeProof::visit_seq#index"}
SPECIFICATION TSpec
POSTCONDITION Consumed
CHECK_DEADLOCK FALSE
