CONSTANTS
  MaxThreads = 3
  MaxPasses = 4
SPECIFICATION FairSpec
INVARIANT TypeOK
INVARIANT OneRunner
INVARIANT HolderRuns
INVARIANT StopWithinOnePass
INVARIANT FlagCoversRun
PROPERTY StoppedEnds
CONSTRAINT Bound
CHECK_DEADLOCK FALSE
