------------------------------ MODULE OwnerGate ------------------------------
(***************************************************************************)
(* C13  The owner JSON-RPC listener acts only on requests authenticated by *)
(*      the session key.                                                   *)
(*                                                                         *)
(* A code-shaped model of controller::OwnerAPIHandlerV3 (the "V3 secure    *)
(* API" of grin-wallet) at the pinned commit:                              *)
(*                                                                         *)
(*   controller/src/controller.rs  call_api (l.597-661), OwnerV3Helpers    *)
(*        is_init_secure_api / check_encryption_started / decrypt_request  *)
(*        / encrypt_response / update_owner_api_shared_key / parse_body    *)
(*   api/src/types.rs   EncryptedRequest (serde struct), EncryptedBody::   *)
(*        decrypt (base64, hex nonce, first 12 bytes, AES-256-GCM, UTF-8,  *)
(*        JSON), EncryptedResponse, EncryptionErrorResponse                *)
(*   api/src/owner_rpc.rs  init_secure_api (ECDH) and the owner methods    *)
(*   easy-jsonrpc-mw 0.5.4  Handler::handle_request (single call,          *)
(*        notification, batch, invalid request, parse error)               *)
(*   impls/src/lifecycle/default.rs, impls/src/backends/lmdb.rs            *)
(*        open/close/create_wallet, get_mnemonic, LMDBBackend::new         *)
(*                                                                         *)
(* The module has three parts:                                             *)
(*   1. the vocabulary of requests (what a client - honest or not - can    *)
(*      put on the wire), shared with the replay harness                   *)
(*      (harness/src/bin/replay_gate);                                     *)
(*   2. Handle(st, q): what the code does with request q in state st,      *)
(*      transcribed branch by branch (the reference operator of Layer M);  *)
(*   3. the property, GateSound, as predicates over one observed step      *)
(*      (session key before, request, response, "did anything change",     *)
(*      session key after).  The same predicates are evaluated by TLC on   *)
(*      every transition of the bounded model (MCOwnerGate) and on every   *)
(*      step recorded from the real handler (TraceOwnerGate, Layer P).     *)
(*                                                                         *)
(* Abstractions (each one is visible as an operator below):                *)
(*   - keys are numbered in the order in which the CLIENT derived them     *)
(*     (1, 2, ...), -1 is a key nobody agreed on, 0 is "no key";           *)
(*   - AES-256-GCM is ideal: an envelope opens under key k iff it was      *)
(*     sealed under k and neither nonce (first 12 bytes) nor ciphertext    *)
(*     nor tag was altered (TamperOpens);                                  *)
(*   - wallet data is a set of named atoms (mnemonic, account label,       *)
(*     output commitment, slatepack address, top-level directory, token);  *)
(*   - the wallet store is its number of accounts plus a "an LMDB write    *)
(*     transaction was committed" flag per step (the harness observes a    *)
(*     digest of the wallet directory);                                    *)
(*   - Owner::shared_key (the Owner's own copy of the session key, set     *)
(*     inside init_secure_api) is not a state variable: it is only ever    *)
(*     read by update_owner_api_shared_key immediately after the call      *)
(*     that wrote it (Dev_ApiKeyNotModelled);                              *)
(*   - the keychain-mask token is always the right one (the client uses    *)
(*     the token of the latest open_wallet reply; wrong tokens are C14).   *)
(*                                                                         *)
(* Behaviour of the code that the model transcribes and the property       *)
(* tolerates (none of it lets an unauthenticated request act):             *)
(*   Dev_BatchInitNoRotate  init_secure_api inside an encrypted batch, or  *)
(*        sent as a notification, runs (the client may derive a key) but   *)
(*        the handler keeps the old key: client and listener disagree      *)
(*        until the next key exchange;                                     *)
(*   Dev_BatchOpenNoMask    likewise open_wallet inside a batch does not   *)
(*        refresh the keychain mask the handler keeps for the foreign API; *)
(*   Dev_NonceFirst12       a nonce longer than 12 bytes is accepted (the  *)
(*        first 12 are used); Dev_OuterUnchecked the envelope's method is  *)
(*        not looked at and the array form of the struct is accepted;      *)
(*   Dev_NoReplayGuard      a recorded envelope is accepted again while    *)
(*        its key is current;                                              *)
(*   Dev_EmptyInClear       an authenticated notification is answered with *)
(*        `[]` in clear (no content).                                      *)
(***************************************************************************)
EXTENDS Integers, Sequences, FiniteSets, TLC

\* ---------------------------------------------------------------- methods
\* abstract method names (the harness maps them to real calls and parameters)
InitMethods  == {"init", "init_bad"}           \* init_secure_api with a valid / invalid public key
Lifecycle    == {"open", "open_badpw", "close", "create_wallet"}
Reads        == {"accounts", "tld", "summary", "outputs", "address", "unknown"}
Writes       == {"new_account", "set_active", "set_default"}
Secrets      == {"mnemonic", "mnemonic_badpw", "secret_key"}
Methods      == InitMethods \cup Lifecycle \cup Reads \cup Writes \cup Secrets
\* methods the alphabet also sends as JSON-RPC notifications (no "id")
NotifMethods == {"init", "new_account", "close", "tld"}

\* ---------------------------------------------------------------- requests
\* [k |-> "plain", m, form]                 one JSON-RPC object in clear; form = "call" | "notif"
\* [k |-> "enc", key, tamper, outer, inner] an encrypted_request_v3 envelope sealed under `key`,
\*                                          then tampered with; inner is any request (nesting)
\* [k |-> "batch", items]                   a JSON array of requests
\* [k |-> "raw", what]                      a body that is not a JSON-RPC object
\* [k |-> "replay", idx, of]                the very bytes of the idx-th request of this history (an
\*                                          envelope an eavesdropper recorded) are sent again; `of` is
\*                                          the descriptor of that request
Plain(m, f)        == [k |-> "plain", m |-> m, form |-> f]
Enc(key, t, o, i)  == [k |-> "enc", key |-> key, tamper |-> t, outer |-> o, inner |-> i]
Batch(items)       == [k |-> "batch", items |-> items]
Raw(w)             == [k |-> "raw", what |-> w]
Replay(i, o)       == [k |-> "replay", idx |-> i, of |-> o]
\* what is on the wire
Wire(q)            == IF q.k = "replay" THEN q.of ELSE q
\* envelopes whose repetition means the same call again (no per-call fresh parameter such as a new
\* account label, no keychain-mask token that a re-opened wallet would reject)
ReplaySafe == {"tld", "close", "open", "open_badpw", "init", "init_bad", "mnemonic", "create_wallet", "unknown"}
Replayable(o) == o.k = "enc" /\ o.tamper = "none" /\ o.outer = "ok" /\ o.inner.k = "plain" /\ o.inner.m \in ReplaySafe

\* alterations of a sealed envelope (harness/src/bin/replay_gate/client.rs: envelope)
Tampers == {"none",        \* as sealed
            "body",        \* one bit of the ciphertext flipped
            "tag",         \* one bit of the GCM tag flipped
            "nonce",       \* one bit of the nonce flipped
            "swapnonce",   \* a different random 12-byte nonce
            "trunc",       \* last 5 bytes cut off
            "short",       \* only 8 bytes left (shorter than a tag)
            "empty",       \* body_enc = ""
            "nonce_short", \* 11-byte nonce
            "nonce_ext",   \* the 12-byte nonce followed by one more byte
            "b64",         \* body_enc is not base64
            "plainbody"}   \* body_enc = base64 of the request itself, never encrypted (downgrade)
\* the outer JSON of the envelope
Outers  == {"ok",          \* {"jsonrpc","method":"encrypted_request_v3","id":n,"params":{nonce,body_enc}}
            "other",       \* method is "accounts"
            "init",        \* method is "init_secure_api"
            "noid",        \* no id member
            "strid",       \* id is a string
            "bigid",       \* id is 2^32 (neither u32 nor string)
            "seq"}         \* the four members as a JSON array (serde accepts a sequence for a struct)
RawKinds == {"notjson", "empty", "string", "number", "null", "true", "nomethod", "emptyobj", "emptyarr", "nullmethod",
             \* an object with TWO "method" members (serde_json keeps the last one):
             "dup_init_last",   \* "method":"no_such_method", ..., "method":"init_secure_api"
             "dup_init_first"}  \* "method":"init_secure_api", ..., "method":"no_such_method"
NotJson  == {"notjson", "empty"}                         \* serde_json::from_reader fails
RawScalar == {"string", "number", "null", "true"}        \* JSON, but neither object nor array

\* What the PROPERTY thinks of an envelope (independent of the code):
\*   "auth"   sealed under `key` and unaltered: it authenticates under `key`
\*   "unauth" nonce / ciphertext / tag altered: it authenticates under no key
\*   "either" the AEAD part (12 nonce bytes, ciphertext, tag) is intact but something
\*            around it is unusual (extra nonce byte, other outer method, no id, array form):
\*            DESIGN.md Appendix B "Gate" - acting on it is allowed, refusing it is allowed
AuthClass(q) ==
  IF q.tamper \in {"body", "tag", "nonce", "swapnonce", "trunc", "short", "empty", "nonce_short", "b64", "plainbody"} THEN "unauth"
  ELSE IF q.tamper = "nonce_ext" \/ q.outer \in {"other", "noid", "bigid", "seq", "init"} THEN "either"
  ELSE "auth"

\* -------------------------------------------------------------------- state
\* st = [sess   handler.shared_key: 0 none, n >= 1 the client's n-th key
\*       ngen   number of keys the client has derived so far
\*       open   the LC provider holds an open backend (volatile)
\*       active parent key id of the open backend: "a0" default, "a1" the second account, "" closed
\*       nacct  accounts created so far through create_account_path (store content)
\*       fg     running_foreign: the listener also serves the foreign API and therefore keeps the
\*              keychain mask of the open wallet in the handler (constant along a history)]
InitState(open0, fg) == [sess |-> 0, ngen |-> 0, open |-> open0, active |-> IF open0 THEN "a0" ELSE "", nacct |-> 0, fg |-> fg]

\* ----------------------------------------------------------- owner methods
\* Exec(st, m) = what Owner does for method m when the JSON-RPC layer dispatches it:
\*   st     the next state (sess is never touched here: the HANDLER copies the key)
\*   res    "ok" (result.Ok) | "err" (result.Err, rewritten to error -32099) | "rpc_err" (-32601/-32602)
\*   data   wallet-data atoms contained in the reply
\*   touch  an LMDB write transaction was committed
\*   pub    the reply carries the server's ECDH public key
NeedsOpen == {"accounts", "summary", "outputs", "address", "secret_key", "new_account", "set_active", "set_default"}
\* outputs and the slatepack address are those of the ACTIVE account (parent key id); the funded
\* outputs and the address the harness knows belong to the default account
DataOf(st, m) == CASE m = "accounts" -> {"acct_label"}
                   [] m = "outputs" /\ st.active = "a0" -> {"commit"}
                   [] m = "address" /\ st.active = "a0" -> {"address"}
                   [] OTHER          -> {}
R(st, res, data, touch, pub) == [st |-> st, res |-> res, data |-> data, touch |-> touch, pub |-> pub]
Exec(st, m) ==
  CASE m = "init"      -> R(st, "ok", {}, FALSE, TRUE)        \* owner_rpc.rs:2227 (also sets Owner::shared_key)
    [] m = "init_bad"  -> R(st, "rpc_err", {}, FALSE, FALSE)  \* ECDHPubkey does not deserialize: -32602
    [] m = "unknown"   -> R(st, "rpc_err", {}, FALSE, FALSE)  \* -32601
    \* default.rs:220 open_wallet: LMDBBackend::new (re-puts the "default" account mapping: a commit
    \* on EVERY call, lmdb.rs:145), then the seed is decrypted; on success the new backend replaces
    \* whatever was open (its parent key id is the default account again)
    [] m = "open"      -> R([st EXCEPT !.open = TRUE, !.active = "a0"], "ok", {}, TRUE, FALSE)
    [] m = "open_badpw" -> R(st, "err", {}, TRUE, FALSE)
    [] m = "close"     -> R([st EXCEPT !.open = FALSE, !.active = ""], "ok", {}, FALSE, FALSE)
    \* default.rs:182: the seed exists; the message names the data directory
    [] m = "create_wallet" -> R(st, "err", {"tld"}, FALSE, FALSE)
    \* default.rs:267 get_mnemonic decrypts the seed file; the wallet need not be open
    [] m = "mnemonic"  -> R(st, "ok", {"mnemonic"}, FALSE, FALSE)
    [] m = "mnemonic_badpw" -> R(st, "err", {}, FALSE, FALSE)
    [] m = "tld"       -> R(st, "ok", {"tld"}, FALSE, FALSE)
    [] m \in NeedsOpen /\ ~st.open -> R(st, "err", {}, FALSE, FALSE)   \* "Wallet has not been opened"
    [] m = "new_account" -> R([st EXCEPT !.nacct = @ + 1], "ok", {}, TRUE, FALSE)
    [] m = "set_active"  -> R([st EXCEPT !.active = "a1"], "ok", {}, FALSE, FALSE)
    [] m = "set_default" -> R([st EXCEPT !.active = "a0"], "ok", {}, FALSE, FALSE)
    [] OTHER             -> R(st, "ok", DataOf(st, m), FALSE, FALSE)

\* ------------------------------------------------- the JSON-RPC dispatcher
\* easy-jsonrpc-mw handle_request(val): returns
\*   [st, reply   "none" (DontReply) | "one" | "many",
\*    cls         class of the single reply: "ok" | "err" | "rpc_err"
\*    items       classes of a batch reply
\*    data, touch accumulated
\*    npub        number of server public keys the client can read in the reply
\*    okstr       the single reply is result.Ok = <string> (what update_owner_api_shared_key looks at)]
D(st, reply, cls, items, data, touch, npub, okstr) ==
  [st |-> st, reply |-> reply, cls |-> cls, items |-> items, data |-> data, touch |-> touch, npub |-> npub, okstr |-> okstr]

\* a batch: calls are executed in order; notifications produce no output (lib.rs:318).
\* jsonrpc_core::Request is an untagged enum Single(Call) | Batch(Vec<Call>) and a Call must be a
\* JSON object: one scalar member makes the WHOLE value unparsable (-32700, nothing is executed);
\* an object that is not a call (no method) is an invalid call with its own error output.
BadMember(it) == it.k = "raw" /\ it.what \in RawScalar
RECURSIVE RunItems(_, _, _)
RunItems(st, items, acc) ==
  IF items = <<>> THEN [acc EXCEPT !.st = st]
  ELSE LET it == Head(items) IN
       IF it.k = "plain"
       THEN LET x == Exec(st, it.m)
                seen == it.form = "call" IN
            RunItems(x.st, Tail(items),
                     [acc EXCEPT !.items = IF seen THEN Append(@, x.res) ELSE @,
                                 !.data  = IF seen THEN @ \cup x.data ELSE @,
                                 !.touch = @ \/ x.touch,
                                 !.npub  = IF seen /\ x.pub THEN @ + 1 ELSE @])
       ELSE \* anything else inside an array is an invalid call: one "Invalid request" output
            RunItems(st, Tail(items), [acc EXCEPT !.items = Append(@, "rpc_err")])

Dispatch(st, v) ==
  CASE v.k = "plain" ->
         LET x == Exec(st, v.m) IN
         IF v.form = "notif"
         THEN D(x.st, "none", "", <<>>, {}, x.touch, 0, FALSE)                 \* handle_call: `let id = maybe_id?`
         ELSE D(x.st, "one", x.res, <<>>, x.data, x.touch, IF x.pub THEN 1 ELSE 0, x.pub)
    [] v.k = "batch" ->
         IF \E i \in DOMAIN v.items : BadMember(v.items[i])
         THEN D(st, "one", "rpc_err", <<>>, {}, FALSE, 0, FALSE)                \* lib.rs:215 "Parse error"
         ELSE LET a == RunItems(st, v.items, D(st, "many", "", <<>>, {}, FALSE, 0, FALSE)) IN
              IF a.items = <<>> THEN [a EXCEPT !.reply = "none"] ELSE a        \* lib.rs:323
    [] v.k = "enc" ->
         \* an envelope handed to the dispatcher is a call of a method that Owner does not have
         \* (outer "init": init_secure_api with the wrong parameters): -32601 / -32602.
         \* The array form has scalar members: "Parse error".
         IF v.outer = "noid" THEN D(st, "none", "", <<>>, {}, FALSE, 0, FALSE)   \* a notification of an unknown method
         ELSE D(st, "one", "rpc_err", <<>>, {}, FALSE, 0, FALSE)
    [] v.k = "raw" ->
         IF v.what = "emptyarr" THEN D(st, "none", "", <<>>, {}, FALSE, 0, FALSE)     \* empty batch
         ELSE D(st, "one", "rpc_err", <<>>, {}, FALSE, 0, FALSE)   \* -32700 Parse error / -32600 Invalid request

\* ------------------------------------------------------------ the handler
\* val["method"] of the top-level JSON value (Null for arrays and scalars)
\* is_open_wallet(val): the value given to the dispatcher is ONE call of open_wallet
IsOpenVal(q) == q.k = "plain" /\ q.m \in {"open", "open_badpw"}
IsInitVal(q) == \/ q.k = "plain" /\ q.m \in InitMethods
                \/ q.k = "enc" /\ q.outer = "init"
                \/ q.k = "raw" /\ q.what = "dup_init_last"
\* serde_json::from_value::<EncryptedRequest>: jsonrpc, method: String, id: u32|String, params{nonce, body_enc};
\* unknown members are ignored, a 4-element array is accepted as the struct
IsEnvelope(q) == q.k = "enc" /\ q.outer \notin {"noid", "bigid"}
\* EncryptedBody::decrypt succeeds (types.rs:121): the code takes the FIRST 12 bytes of the nonce
TamperOpens(t) == t \in {"none", "nonce_ext"}
\* the decrypted bytes are UTF-8 JSON (types.rs:149-152)
InnerParses(i) == ~(i.k = "raw" /\ i.what \in NotJson)

\* the response record (what the client can observe)
\*   cls     "http_err" | "gate_err" | "rpc_err" | "plain_ok" | "plain_err" | "plain_batch" | "empty" | "enc"
\*   code    HTTP status for http_err, JSON-RPC error code for gate_err (others: 0; Layer M does not predict
\*           the exact -326xx code)
\*   deckey  for cls = "enc": the key under which the reply opens
\*   inner   for cls = "enc": "ok" | "err" | "rpc_err" | "batch"
\*   items   for a batch reply: the classes of its members
\*   leak_raw / leak_dec  wallet-data atoms readable in the clear text / in the decrypted reply
\*   nkeys   how many new session keys the client could derive from this reply
Resp(cls, code, deckey, inner, items, raw, dec, nkeys) ==
  [cls |-> cls, code |-> code, deckey |-> deckey, inner |-> inner, items |-> items,
   leak_raw |-> raw, leak_dec |-> dec, nkeys |-> nkeys]
GateErr(code) == Resp("gate_err", code, 0, "", <<>>, {}, {}, 0)

PlainCls(res) == CASE res = "ok" -> "plain_ok" [] res = "err" -> "plain_err" [] OTHER -> "rpc_err"

\* after handle_request (controller.rs:626-660); `was` = the request arrived encrypted,
\* `initv` / `openv` = the value given to the dispatcher has method init_secure_api / open_wallet.
\* mtouch: update_mask (controller.rs:630) stored the token of the reply in handler.keychain_mask -
\* only for a single open_wallet call with a reply (Dev_BatchOpenNoMask: not inside a batch, not as
\* a notification) and only when the foreign API shares the listener.
Reply(st, d, was, initv, openv) ==
  LET \* the client completes the key agreement for every public key it can read
      st1 == [d.st EXCEPT !.ngen = @ + d.npub]
      \* update_owner_api_shared_key: only for a single reply with result.Ok a string; the key
      \* installed is the one agreed in this very call = the client's newest key.
      \* Dev_BatchInitNoRotate: an init_secure_api inside a batch or sent as a notification runs
      \* (the client may even derive a key) but the handler keeps its old key.
      st2 == IF initv /\ d.reply = "one" /\ d.okstr THEN [st1 EXCEPT !.sess = st1.ngen] ELSE st1
      mt  == openv /\ st.fg /\ d.reply = "one" /\ d.cls = "ok" IN
  IF d.reply = "none"
  THEN [st |-> st2, touch |-> d.touch, mtouch |-> FALSE, resp |-> Resp("empty", 0, 0, "", <<>>, {}, {}, 0)]   \* `[]` in clear
  ELSE IF was
  THEN \* encrypt_response under the handler's key BEFORE it is updated (controller.rs:633-652)
       [st |-> st2, touch |-> d.touch, mtouch |-> mt,
        resp |-> Resp("enc", 0, st.sess, IF d.reply = "many" THEN "batch" ELSE d.cls, d.items, {}, d.data, d.npub)]
  ELSE [st |-> st2, touch |-> d.touch, mtouch |-> mt,
        resp |-> Resp(IF d.reply = "many" THEN "plain_batch" ELSE PlainCls(d.cls), 0, 0, "", d.items, d.data, {}, d.npub)]

Refuse(st, resp) == [st |-> st, touch |-> FALSE, mtouch |-> FALSE, resp |-> resp]
Handle(st, q0) ==
  LET q == Wire(q0) IN
  IF q.k = "raw" /\ q.what \in NotJson
  THEN Refuse(st, Resp("http_err", 500, 0, "", <<>>, {}, {}, 0))              \* parse_body fails
  ELSE IF IsInitVal(q)
  THEN Reply(st, Dispatch(st, q), FALSE, TRUE, FALSE)                          \* controller.rs:605-608: no gate
  ELSE IF st.sess = 0
  THEN Refuse(st, GateErr(-32001))                                             \* check_encryption_started
  ELSE IF ~IsEnvelope(q)
  THEN Refuse(st, GateErr(-32002))                                             \* "Encrypted request format error"
  ELSE IF ~(q.key = st.sess /\ TamperOpens(q.tamper) /\ InnerParses(q.inner))
  THEN Refuse(st, GateErr(-32002))                                             \* "Decryption error"
  ELSE Reply(st, Dispatch(st, q.inner), TRUE, IsInitVal(q.inner), IsOpenVal(q.inner))   \* controller.rs:623-625

\* ---------------------------------------------------------------------------
\*                              THE PROPERTY
\* ---------------------------------------------------------------------------
\* One step is described by
\*   s0   the handler's session key before the request (0 none, -2 a key the client cannot name)
\*   q    the request
\*   r    the response record
\*   eff  something other than the session key changed: the wallet directory on disk, whether the
\*        wallet is open, its active account, its top-level directory, the keychain mask kept by the handler
\*   s1   the handler's session key after the request
\*   nk   the client's key number derived from this reply (0 none), fresh = it is a new key

\* the request is encrypted and authenticated under the current session key
\* (a replayed envelope still authenticates under the key it was sealed with: the statement does not
\* ask for replay protection, so acting on it is allowed and refusing it is allowed)
AuthOK(s0, q0) == LET q == Wire(q0) IN q.k = "enc" /\ s0 >= 1 /\ q.key = s0 /\ AuthClass(q) # "unauth"
\* ... and nobody could object to the envelope
AuthStrict(s0, q) == q.k = "enc" /\ s0 >= 1 /\ q.key = s0 /\ AuthClass(q) = "auth"
\* the key-exchange call, in clear: the one request the gate lets through
KeyExchange(q0) == IsInitVal(Wire(q0))

ErrClasses == {"gate_err", "http_err", "rpc_err", "plain_err"}

\* (1) no effect without authentication
NoEffectUnlessAuth(s0, q, eff) == eff => AuthOK(s0, q)
\* (2) the session key changes only through the key exchange (in clear, or inside an authenticated request)
KeyChangeOnlyByExchange(s0, q, s1) == (s1 # s0) => (KeyExchange(q) \/ AuthOK(s0, q))
\* (3) everything that is neither authenticated nor the key exchange is answered with an error
\*     (an error object in clear, an HTTP error, or - should the code ever choose to - an error encrypted
\*     under some key; never a result, never `[]`, never a crash of the handler)
IsError(r) == r.cls \in ErrClasses \/ (r.cls = "enc" /\ r.inner \in {"err", "rpc_err", "gate_err"})
ErrorUnlessAuth(s0, q, r) == (~AuthOK(s0, q) /\ ~KeyExchange(q)) => IsError(r)
\* (4) nothing the client can read without a key contains wallet data; a clear-text success is
\*     only ever the reply to the key exchange
NoClearData(q, r) == /\ r.leak_raw = {}
                     /\ r.cls \in {"plain_ok", "plain_batch"} => KeyExchange(q)
\* (5) an encrypted reply is encrypted under the key in force before the request
\*     (in particular an encrypted init_secure_api is answered under the OLD key)
ReplyUnderKeyInForce(s0, r) == r.cls = "enc" => (s0 = -2 \/ (s0 >= 1 /\ r.deckey = s0))
\* (6) wallet data and successful results travel only in replies to authenticated requests
DataOnlyIfAuth(s0, q, r) ==
  (r.cls = "enc" /\ (r.leak_dec # {} \/ r.inner \in {"ok", "batch"})) => AuthOK(s0, q)
\* (7) a successful key exchange (one call, answered with the server's public key) installs exactly
\*     the key agreed in that call, and that key is new: the previous key is superseded.
\*     Reading: "the key-exchange call" is one JSON-RPC call with an id; an init_secure_api hidden
\*     in a batch or sent as a notification is not required to rotate (Dev_BatchInitNoRotate).
SingleExchange(s0, q) ==
  \/ q.k = "plain" /\ q.m = "init" /\ q.form = "call"
  \/ AuthStrict(s0, q) /\ q.inner.k = "plain" /\ q.inner.m = "init" /\ q.inner.form = "call"
ExchangeRotates(s0, q, nk, fresh, s1) == (SingleExchange(s0, q) /\ nk >= 1) => (fresh /\ s1 = nk /\ s1 # s0)

GateMonitors == <<"NoEffectUnlessAuth", "KeyChangeOnlyByExchange", "ErrorUnlessAuth", "NoClearData",
                  "ReplyUnderKeyInForce", "DataOnlyIfAuth", "ExchangeRotates">>
GateHolds(i, s0, q, r, eff, s1, nk, fresh) ==
  CASE i = 1 -> NoEffectUnlessAuth(s0, q, eff)
    [] i = 2 -> KeyChangeOnlyByExchange(s0, q, s1)
    [] i = 3 -> ErrorUnlessAuth(s0, q, r)
    [] i = 4 -> NoClearData(q, r)
    [] i = 5 -> ReplyUnderKeyInForce(s0, r)
    [] i = 6 -> DataOnlyIfAuth(s0, q, r)
    [] i = 7 -> ExchangeRotates(s0, q, nk, fresh, s1)
GateSound(s0, q, r, eff, s1, nk, fresh) == \A i \in 1..7 : GateHolds(i, s0, q, r, eff, s1, nk, fresh)

\* the class of a request, for violation keys and coverage: what kind of envelope, how its key
\* relates to the handler's key, how it was tampered with, what it carries
KeyRel(s0, key) == IF key = -1 THEN "wrongkey" ELSE IF key = s0 THEN "curkey" ELSE "oldkey"
InnerKind(i) == CASE i.k = "plain" -> (IF i.form = "notif" THEN "notif." ELSE "") \o i.m
                  [] i.k = "raw" -> "raw." \o i.what
                  [] OTHER -> i.k
RECURSIVE QClass(_, _)
QClass(s0, q) ==
  CASE q.k = "replay" -> "replay:" \o QClass(s0, q.of)
    [] q.k = "plain" -> "plain/" \o InnerKind(q)
    [] q.k = "raw"   -> "raw/" \o q.what
    [] q.k = "batch" -> "batch"
    [] q.k = "enc"   -> "enc/" \o KeyRel(s0, q.key) \o "/" \o q.tamper \o "/" \o q.outer \o "/" \o InnerKind(q.inner)
=============================================================================
