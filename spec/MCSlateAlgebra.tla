--------------------------- MODULE MCSlateAlgebra ---------------------------
(***************************************************************************)
(* Bounded model / case generator for SlateAlgebra.tla (property C02).     *)
(*                                                                         *)
(* A state is one CASE: a flow (send, late-locked send, self-send, invoice *)
(* finalized by the issuer, self-invoice), a shape of the deal (1..2       *)
(* inputs, 0..2 change outputs, amount-includes-fee, payment proof) and    *)
(* one alteration of a slate in flight (none; one of the PreClasses on the *)
(* S1 / I1 slate before the counterparty answers; one of the PostClasses   *)
(* on the reply).  TLC enumerates every applicable case and model-checks   *)
(*   Inv_Honest            the untouched exchange finalizes, and what it   *)
(*                         produces is consensus-valid, fee-sufficient,    *)
(*                         exactly the deal                                *)
(*   Inv_FinalTxValidExact whatever the transcribed finalize returns Ok on *)
(*                         is consensus-valid, fee-sufficient, exact       *)
(*   Inv_TamperRefused     no case the algebra condemns (must_fail) is     *)
(*                         accepted by the transcribed finalize            *)
(*   Inv_Reply             every applicable case gets as far as a reply    *)
(* and prints every case with the algebra's verdict and the transcription's*)
(* prediction as JSON (tag CASE): the stimulus for harness/replay_tamper.  *)
(* With Skip # {} (a check of the code left out) the run is a seeded spec  *)
(* mutant: Inv_TamperRefused / Inv_FinalTxValidExact must then FAIL, which *)
(* shows which check carries which tamper class (binding self-test).       *)
(***************************************************************************)
EXTENDS SlateAlgebra, Json

CONSTANTS NinSet, NchSet, Emit

VARIABLE c

Classes == {"none"} \cup PreClasses \cup PostClasses
AllCases == {x \in [flow : Flows, nin : NinSet, nch : NchSet, incfee : BOOLEAN, proof : BOOLEAN,
                    stage : {"none", "pre", "post"}, tamper : Classes] : Applicable(x)}

Init == c \in AllCases
Next == UNCHANGED c
Spec == Init /\ [][Next]_c

FinTx == Exchange(c).fin.tx

Inv_Reply == Verdict(c) # "no_reply"
Inv_Honest ==
  c.tamper = "none" => /\ Predict(c).res = "ok" /\ Verdict(c) = "may_fail"
                       /\ ConsensusValid(FinTx) /\ FeeOk(FinTx) /\ Exact(c, FinTx)
Inv_FinalTxValidExact ==
  Predict(c).res = "ok" => ConsensusValid(FinTx) /\ FeeOk(FinTx) /\ Exact(c, FinTx)
Inv_TamperRefused == ~TamperRefusedBroken(Verdict(c), Predict(c).res)

\* counter-examples of a seeded mutant are printed, not stopped at
Mutant_Report ==
  IF TamperRefusedBroken(Verdict(c), Predict(c).res)
     \/ (Predict(c).res = "ok" /\ ~(ConsensusValid(FinTx) /\ FeeOk(FinTx) /\ Exact(c, FinTx)))
     \/ (c.tamper = "none" /\ Predict(c).res # "ok")
  THEN PrintT(<<"MUTCEX", ToJson([flow |-> c.flow, stage |-> c.stage, tamper |-> c.tamper, nch |-> c.nch, nin |-> c.nin])>>)
  ELSE TRUE

EmitCase ==
  IF ~Emit THEN TRUE
  ELSE PrintT(<<"CASE", ToJson([flow |-> c.flow, nin |-> c.nin, nch |-> c.nch, incfee |-> c.incfee, proof |-> c.proof,
                                stage |-> c.stage, tamper |-> c.tamper,
                                verdict |-> Verdict(c), predict |-> Predict(c).res, why |-> Predict(c).why])>>)
=============================================================================
