--------------------------- MODULE MCSlateAlgebra ---------------------------
(***************************************************************************)
(* Bounded model / case generator for SlateAlgebra.tla (property C02).     *)
(*                                                                         *)
(* A state is one CASE: a flow (send, late-locked send, self-send, invoice *)
(* finalized by the issuer, self-invoice), a shape of the deal (1..2       *)
(* inputs, 0..2 change outputs, amount-includes-fee, payment proof) and    *)
(* one alteration of a slate in flight (none; one of the PreClasses on the *)
(* S1 / I1 slate before the counterparty answers; one of the PostClasses   *)
(* on the reply), and - for the flows in PairFlows - every ordered pair of  *)
(* alterations (the second one on the reply) on the basic shape.  TLC enumerates every applicable case and model-checks   *)
(*   Inv_Honest            the untouched exchange finalizes, and what it   *)
(*                         produces is consensus-valid, fee-sufficient,    *)
(*                         exactly the deal                                *)
(*   Inv_FinalTxValidExact whatever the transcribed finalize returns Ok on *)
(*                         is consensus-valid, fee-sufficient, exact       *)
(*   Inv_TamperRefused     no case the algebra condemns (must_fail) is     *)
(*                         accepted by the transcribed finalize            *)
(*   Inv_Reply             every applicable case gets as far as a reply    *)
(*   Inv_Reserved/Inv_Retry/Inv_RetrySucceeds  two deliveries: after a     *)
(*                         refused reply the genuine one is delivered; it  *)
(*                         finalizes, the result is valid and exact, spends*)
(*                         exactly what the wallet has locked for the slate*)
(*                         and leaves one live TxSent entry                *)
(* and prints every case with the algebra's verdict and the transcription's*)
(* prediction as JSON (tag CASE): the stimulus for harness/replay_tamper.  *)
(* With Skip # {} (a check of the code left out) the run is a seeded spec  *)
(* mutant: Inv_TamperRefused / Inv_FinalTxValidExact must then FAIL, which *)
(* shows which check carries which tamper class (binding self-test).       *)
(***************************************************************************)
EXTENDS SlateAlgebra, Json

CONSTANTS NinSet, NchSet, Emit,
          PairFlows, \* flows for which every ordered PAIR of alterations (second one on the reply) is a case (basic shape)
          PairProof, \* subset of BOOLEAN: the `proof` values of the pairs enumerated by this process
          WithSingles \* FALSE: only the pairs (the runner splits the enumeration over several TLC processes)

VARIABLE c

Classes == {"none"} \cup PreClasses \cup PostClasses
Singles == IF ~WithSingles THEN {} ELSE
           {x \in [flow : Flows, nin : NinSet, nch : NchSet, incfee : BOOLEAN, proof : BOOLEAN,
                   stage : {"none", "pre", "post"}, tamper : Classes, tamper2 : {"none"}] : Applicable(x)}
\* pairs: one input, one change output; a pair that cannot be composed on the actual slates (the second
\* class needs something the first one removed) is not a case
PairCases == {x \in [flow : PairFlows, nin : {1}, nch : {1}, incfee : {FALSE}, proof : PairProof,
                          stage : {"pre", "post"}, tamper : PreClasses \cup PostClasses, tamper2 : PostClasses] :
                     Applicable(x) /\ Exchange(x).reply}
AllCases == Singles \cup PairCases

Init == c \in AllCases
Next == UNCHANGED c
Spec == Init /\ [][Next]_c

FinTx == Exchange(c).fin.tx

Inv_Reply == Verdict(c) # "no_reply"
Inv_Honest ==
  c.tamper = "none" => /\ Predict(c).res = "ok" /\ Verdict(c) = "may_fail"
                       /\ ConsensusValid(FinTx) /\ FeeOk(FinTx) /\ Exact(c, FinTx)
Inv_FinalTxValidExact ==
  Predict(c).res = "ok" => ConsensusValid(FinTx) /\ FeeOk(FinTx) /\ Exact(c, FinTx)
Inv_TamperRefused == ~TamperRefusedBroken(Verdict(c), Predict(c).res)

\* two deliveries: after a refused reply the reply the counterparty really sent is delivered
Fin2 == TwoDelivery(c).fin
Inv_Reserved == Predict(c).res = "ok" => ReservedExact(c, Exchange(c).fin.a)
Inv_Retry ==
  TwoDelivery(c).retried =>
    /\ ~TamperRefusedBroken(Verdict2(c), Predict2(c).res)
    /\ Predict2(c).res = "ok" => /\ ConsensusValid(Fin2.tx) /\ FeeOk(Fin2.tx) /\ Exact(c, Fin2.tx)
                                 /\ ReservedExact(c, Fin2.a)
\* the algebra says the genuine reply is fine: the retry must succeed - except where the refused reply made the
\* LOCK itself fail after the selection had been stored (late lock; a proof added to a send that asked for none,
\* or a reply without transaction whose kernel features cannot be built): the context then names change outputs
\* that were never written.  Named deviation, a consequence of the known finding C07/ForeignOnlyAdds/finalize.
Dev_LateLockResidue ==
  LET t == TwoDelivery(c) IN
  t.retried /\ "s" \in DOMAIN t.ctxs /\ t.ctxs["s"].nsel > 0 /\ ~t.ctxs["s"].locked
Inv_RetrySucceeds ==
  TwoDelivery(c).retried /\ Verdict2(c) = "may_fail" /\ c.stage = "post" /\ ~Dev_LateLockResidue => Predict2(c).res = "ok"

\* counter-examples of a seeded mutant are printed, not stopped at
Mutant_Report ==
  IF TamperRefusedBroken(Verdict(c), Predict(c).res)
     \/ (Predict(c).res = "ok" /\ ~(ConsensusValid(FinTx) /\ FeeOk(FinTx) /\ Exact(c, FinTx)))
     \/ (c.tamper = "none" /\ Predict(c).res # "ok")
     \/ ~Inv_Retry \/ ~Inv_Reserved
  THEN PrintT(<<"MUTCEX", ToJson([flow |-> c.flow, stage |-> c.stage, tamper |-> c.tamper, tamper2 |-> c.tamper2, nch |-> c.nch, nin |-> c.nin])>>)
  ELSE TRUE

EmitCase ==
  IF ~Emit THEN TRUE
  ELSE PrintT(<<"CASE", ToJson([flow |-> c.flow, nin |-> c.nin, nch |-> c.nch, incfee |-> c.incfee, proof |-> c.proof,
                                stage |-> c.stage, tamper |-> c.tamper, tamper2 |-> c.tamper2,
                                verdict |-> Verdict(c), predict |-> Predict(c).res, why |-> Predict(c).why,
                                verdict2 |-> Verdict2(c), predict2 |-> Predict2(c).res, why2 |-> Predict2(c).why])>>)
=============================================================================
