--------------------------- MODULE TraceOwnerGate ---------------------------
(***************************************************************************)
(* Trace validation of the REAL controller::OwnerAPIHandlerV3 (driven      *)
(* in-process by harness/replay_gate) against OwnerGate.tla.               *)
(*                                                                         *)
(* One line of the trace = one HTTP POST: the request descriptor `q`, the  *)
(* response record `resp` and the observed state before/after (`pre`,      *)
(* `post`: the handler's session key by client key number, client key      *)
(* count, wallet open?, active account, top-level directory unchanged?,    *)
(* digest of the wallet directory, digest of the handler's keychain mask). *)
(*                                                                         *)
(*   Layer P  the seven predicates of GateSound evaluated on the OBSERVED  *)
(*            step.  A failure prints a VIOL line: the verdict.            *)
(*   Layer M  the observed response and state change must be what          *)
(*            Handle(ms, q) predicts, ms being the model state carried     *)
(*            along (re-synchronised to the observation after every step). *)
(*            A mismatch prints a NONCONF line only.                       *)
(* The spec never blocks: every line is consumed.                          *)
(***************************************************************************)
EXTENDS OwnerGate, Json, IOUtils, TLCExt

CONSTANT CheckM     \* TRUE: evaluate Layer M as well as Layer P

VARIABLES l, cur, ms, np
tvars == <<l, cur, ms, np>>
\* at most this many VIOL / NONCONF lines are printed (np counts both kinds); a grossly broken
\* handler must not drown the runner
PrintLimit == 3000

Rec == ndJsonDeserialize(IOEnv.TRACE)
Has(r, f) == f \in DOMAIN r
SeqSet(s) == {s[i] : i \in DOMAIN s}

\* ------------------------------------------------------------ observation
ObsState(j) == [sess |-> j.sess, ngen |-> j.ngen, open |-> j.open, active |-> j.active, tld |-> j.tld, dig |-> j.dig,
                mask |-> j.mask]
ObsResp(j) == [cls |-> j.cls, code |-> j.code, deckey |-> j.deckey, inner |-> j.inner, items |-> j.items,
               leak_raw |-> SeqSet(j.leak_raw), leak_dec |-> SeqSet(j.leak_dec),
               nkeys |-> IF j.newkey >= 1 THEN 1 ELSE 0]
Effect(a, b) == a.open # b.open \/ a.active # b.active \/ a.tld # b.tld \/ a.dig # b.dig \/ a.mask # b.mask

\* -------------------------------------------------------------- reporting
Viol(m, e, cls, info) ==
  PrintT(<<"VIOL", ToJson([p |-> "C13", m |-> m, line |-> l, b |-> e.b, ev |-> cls, info |-> info])>>)
NonConf(e, what, exp, obs) ==
  PrintT(<<"NONCONF", ToJson([line |-> l, b |-> e.b, what |-> what, exp |-> exp, obs |-> obs])>>)
Check(c, m, e, cls, info) == IF c THEN TRUE ELSE IF np.v >= PrintLimit THEN TRUE ELSE Viol(m, e, cls, info)

IsEv(n) == l <= Len(Rec) /\ Rec[l].ev = n

\* ------------------------------------------------------------------ reset
TReset ==
  /\ IsEv("reset")
  /\ LET o == ObsState(Rec[l].post) IN
     /\ cur' = o
     /\ ms' = [sess |-> o.sess, ngen |-> o.ngen, open |-> o.open, active |-> o.active, nacct |-> 0, fg |-> Rec[l].foreign]
  /\ l' = l + 1 /\ UNCHANGED np

\* ---------------------------------------------------------------- request
\* Layer M: compare what the model predicts with what was observed, field by field:
\* a list of <<what, agrees, expected, observed>>
MList(e, q, h, r, pre, post) ==
  LET x == h.resp IN
  << <<"resp.cls", x.cls = r.cls, x.cls, r.cls>>,
     <<"resp.code", x.cls \notin {"gate_err", "http_err"} \/ x.code = r.code, x.code, r.code>>,
     <<"resp.deckey", x.deckey = r.deckey, x.deckey, r.deckey>>,
     <<"resp.inner", x.inner = r.inner, x.inner, r.inner>>,
     <<"resp.items", x.items = r.items, x.items, r.items>>,
     <<"resp.leak_raw", x.leak_raw = r.leak_raw, x.leak_raw, r.leak_raw>>,
     <<"resp.leak_dec", x.leak_dec = r.leak_dec, x.leak_dec, r.leak_dec>>,
     <<"resp.newkey", (x.nkeys >= 1) = (r.nkeys >= 1), x.nkeys, e.resp.newkey>>,
     <<"post.sess", h.st.sess = post.sess, h.st.sess, post.sess>>,
     <<"post.ngen", h.st.ngen = post.ngen, h.st.ngen, post.ngen>>,
     <<"post.open", h.st.open = post.open, h.st.open, post.open>>,
     <<"post.active", h.st.active = post.active, h.st.active, post.active>>,
     <<"store touched", h.touch = (pre.dig # post.dig), h.touch, pre.dig # post.dig>>,
     <<"handler keychain mask changed", h.mtouch = (pre.mask # post.mask), h.mtouch, pre.mask # post.mask>>,
     <<"top-level directory", post.tld, TRUE, post.tld>>,
     <<"pre-state", ObsState(e.pre) = pre, pre, ObsState(e.pre)>>,
     \* binding of the harness itself: the envelope it built is a genuine AEAD message under the
     \* named key exactly when the descriptor says it was not tampered with
     <<"harness: envelope genuineness",
       (q.k = "enc" /\ Has(e.sent, "genuine")) => (e.sent.genuine = (q.tamper = "none")), "", "">> >>
MBad(ml) == {i \in DOMAIN ml : ~ml[i][2]}

TReq ==
  /\ IsEv("req")
  /\ LET e    == Rec[l]
         q    == e.q
         pre  == cur
         post == ObsState(e.post)
         r    == ObsResp(e.resp)
         eff  == Effect(pre, post)
         cls  == QClass(pre.sess, q)
         h    == Handle(ms, q) IN
     \* Layer P
     /\ \A i \in 1..7 :
          Check(GateHolds(i, pre.sess, q, r, eff, post.sess, e.resp.newkey, e.resp.fresh), GateMonitors[i], e, cls,
                [cls |-> r.cls, code |-> r.code, deckey |-> r.deckey, inner |-> r.inner, eff |-> eff,
                 s0 |-> pre.sess, s1 |-> post.sess, leak_raw |-> e.resp.leak_raw, leak_dec |-> e.resp.leak_dec])
     \* Layer M
     /\ IF CheckM
        THEN LET ml == MList(e, q, h, r, pre, post) IN
             \A i \in MBad(ml) : IF np.m >= PrintLimit THEN TRUE ELSE NonConf(e, ml[i][1], ml[i][3], ml[i][4])
        ELSE TRUE
     /\ cur' = post
     /\ ms' = [sess |-> post.sess, ngen |-> post.ngen, open |-> post.open, active |-> post.active,
               nacct |-> IF CheckM THEN h.st.nacct ELSE 0, fg |-> ms.fg]
     /\ np' = [v |-> np.v + Cardinality({i \in 1..7 : ~GateHolds(i, pre.sess, q, r, eff, post.sess, e.resp.newkey, e.resp.fresh)}),
               m |-> np.m + IF CheckM THEN Cardinality(MBad(MList(e, q, h, r, pre, post))) ELSE 0]
  /\ l' = l + 1

\* anything else (a harness failure) is reported and skipped
TOther ==
  /\ l <= Len(Rec) /\ Rec[l].ev \notin {"reset", "req"}
  /\ PrintT(<<"NONCONF", ToJson([line |-> l, b |-> Rec[l].b, what |-> "harness: " \o Rec[l].ev, exp |-> "", obs |-> ""])>>)
  /\ l' = l + 1 /\ UNCHANGED <<cur, ms, np>>

TInit == /\ l = 1
         /\ cur = [sess |-> 0, ngen |-> 0, open |-> FALSE, active |-> "", tld |-> TRUE, dig |-> "", mask |-> ""]
         /\ ms = InitState(FALSE, FALSE)
         /\ np = [v |-> 0, m |-> 0]
TNext == TReset \/ TReq \/ TOther
TSpec == TInit /\ [][TNext]_tvars

Consumed == IF TLCGet("stats").diameter - 1 = Len(Rec) THEN PrintT(<<"CONSUMED", Len(Rec)>>)
            ELSE PrintT(<<"STUCK", TLCGet("stats").diameter>>)
=============================================================================
