------------------------------- MODULE TxQuery -------------------------------
(***************************************************************************)
(* Transaction-log queries of grin-wallet (property C19).                  *)
(*                                                                         *)
(*   owner::retrieve_txs(tx_id, tx_slate_id, query_args)                   *)
(*     libwallet/src/api_impl/owner.rs:315   -> takes the active account   *)
(*     libwallet/src/internal/updater.rs:329 retrieve_txs (dispatch,       *)
(*                                            legacy id/slate path)        *)
(*     libwallet/src/internal/updater.rs:97  apply_advanced_tx_list_filtering *)
(*     libwallet/src/api_impl/types.rs:182   RetrieveTxQueryArgs (the      *)
(*                                            documentation of 18 fields)  *)
(*                                                                         *)
(* The module has three parts, all pure operators (no variables):          *)
(*                                                                         *)
(*  1. REFERENCE  Query(log, args, active), ById, BySlate, OutstandingOnly,*)
(*     ListAll: what the field documentation says, under the reading fixed *)
(*     in DESIGN.md Appendix B.                                            *)
(*  2. CODE       RunCode(log, active, q, dev): a transcription of what    *)
(*     the pinned code does, filter by filter, including the behaviour     *)
(*     that is wrong.  Every departure from the reference is a NAMED       *)
(*     deviation; `dev` is the set of deviations switched on.  With        *)
(*     dev = {} the code model is the repaired code.  Layer M of the trace *)
(*     validation compares the real code with RunCode exactly.             *)
(*  3. PROPERTY   Violated(log, active, q, res, obs): the set of monitors  *)
(*     of C19 that an observed (or modelled) result breaks.  These are the *)
(*     Layer-P predicates: they are evaluated by TLC on the output of the  *)
(*     model (model checking, MCTxQuery.tla) and on the output of the real *)
(*     code (trace validation, TraceTxQuery.tla).  They are deliberately   *)
(*     WEAKER than the reference wherever the documentation leaves room    *)
(*     (three-valued Must/May predicates, any tie order, either placement  *)
(*     of entries without a confirmation time), so that correct code is    *)
(*     never accused.                                                      *)
(***************************************************************************)
EXTENDS Integers, Sequences, FiniteSets, TLC

\* ------------------------------------------------------------ vocabulary
TxTypes == {"ConfirmedCoinbase", "TxReceived", "TxSent", "TxReceivedCancelled", "TxSentCancelled", "TxReverted"}
SentTypes == {"TxSent", "TxSentCancelled"}
ReceivedTypes == {"TxReceived", "TxReceivedCancelled"}
CancelledTypes == {"TxReceivedCancelled", "TxSentCancelled"}
LiveTypes == {"TxReceived", "TxSent", "TxReverted"}      \* what the legacy path calls outstanding
Accounts == {"a0", "a1"}         \* a0 = "default" (m/0/0), a1 = second account (m/1/0)
NoTs == 0                        \* confirmation_ts = None
NoSlate == ""                    \* tx_slate_id = None
NoId == -1                       \* tx_id = None

(* A log entry (libwallet/src/types.rs:791 TxLogEntry, the queried fields):   *)
(*   [acct, id, ty, conf, cts, fts, cr, db, slate]                            *)
(*   acct  parent_key_id (account)        id    per-account log id            *)
(*   ty    tx_type                        conf  confirmed                     *)
(*   cts   creation_ts (model time >= 1)  fts   confirmation_ts or NoTs       *)
(*   cr/db amount_credited / amount_debited     slate  tx_slate_id or NoSlate *)
(* A log is a sequence of entries in STORE ORDER: LMDB iterates the keys      *)
(* 't' ++ account path ++ id (impls/src/backends/lmdb.rs save_tx_log_entry),  *)
(* i.e. account by account, ids ascending.                                    *)

FlagFields == {"exclude_cancelled", "include_outstanding_only", "include_confirmed_only", "include_sent_only",
               "include_received_only", "include_coinbase_only", "include_reverted_only"}
IdFields   == {"min_id", "max_id"}
AmtFields  == {"min_amount", "max_amount"}
TsFields   == {"min_creation_timestamp", "max_creation_timestamp", "min_confirmed_timestamp", "max_confirmed_timestamp"}
FilterFields == FlagFields \cup IdFields \cup AmtFields \cup TsFields
ShapeFields  == {"limit", "sort_field", "sort_order"}
AllFields    == FilterFields \cup ShapeFields
SortFieldNames == {"Id", "CreationTimestamp", "ConfirmationTimestamp", "TotalAmount", "AmountCredited", "AmountDebited"}

(* Query arguments: a function whose DOMAIN is the set of SUPPLIED fields     *)
(* (Option::Some); an omitted field is simply not in the domain.              *)
Has(a, f) == f \in DOMAIN a
NoArgs == <<>>

(* A query = the parameters of owner::retrieve_txs:                           *)
(*   [id, slate, hasargs, args, outstanding]                                  *)
(* `outstanding` is the extra parameter of the internal updater::retrieve_txs *)
(* (always FALSE through the owner API).                                      *)
ArgsEffective(q) == q.hasargs /\ q.id = NoId /\ q.slate = NoSlate
EffArgs(q) == IF ArgsEffective(q) THEN q.args ELSE NoArgs

\* ------------------------------------------------------------ sequences
SeqToSet(s) == {s[i] : i \in DOMAIN s}
MinOf(a, b) == IF a < b THEN a ELSE b
Take(s, k) == SubSeq(s, 1, MinOf(k, Len(s)))
Rev(s) == [i \in 1..Len(s) |-> s[Len(s) + 1 - i]]
\* stable sort by an integer key: position = number of elements that must precede
StableSortByKey(s, K(_)) ==
  LET n == Len(s)
      pos(i) == Cardinality({j \in 1..n : K(s[j]) < K(s[i]) \/ (K(s[j]) = K(s[i]) /\ j < i)}) + 1
  IN [p \in 1..n |-> s[CHOOSE i \in 1..n : pos(i) = p]]

AcctRank(a) == IF a = "a0" THEN 0 ELSE 1
\* the order in which the store iterates a set of entries with distinct (acct, id)
StoreOrder(S) ==
  LET any == CHOOSE s \in [1..Cardinality(S) -> S] : \A i, j \in 1..Cardinality(S) : i # j => s[i] # s[j]
  IN StableSortByKey(any, LAMBDA e : AcctRank(e.acct) * 1000000 + e.id)

\* ------------------------------------------------------------ shared meaning
(* "amount" of an entry (Appendix B; the CLI shows the same number):          *)
(* debited - credited for sent entries, credited - debited otherwise          *)
Net(e) == IF e.ty \in SentTypes THEN e.db - e.cr ELSE e.cr - e.db

SortKeyOf(sf, e) ==
  CASE sf = "Id" -> e.id
    [] sf = "CreationTimestamp" -> e.cts
    [] sf = "ConfirmationTimestamp" -> e.fts          \* NoTs = 0 sorts first, as Option::None does
    [] sf = "TotalAmount" -> Net(e)
    [] sf = "AmountCredited" -> e.cr
    [] sf = "AmountDebited" -> e.db
EffSort(args) == IF Has(args, "sort_field") THEN args.sort_field ELSE "Id"     \* "defaults to ID if not present"
IsDesc(args) == Has(args, "sort_order") /\ args.sort_order = "Desc"            \* "defaults to ASC if not present"

(***************************************************************************)
(* 1. REFERENCE                                                            *)
(***************************************************************************)
(* Sat(f, v, e): entry e satisfies criterion f = v, as documented on       *)
(* RetrieveTxQueryArgs, reading of DESIGN.md Appendix B: bounds inclusive; *)
(* a flag set to FALSE does not filter; an entry without a confirmation    *)
(* time passes confirmation-time bounds; cancelled entries are still sent /*)
(* received entries.                                                       *)
Sat(f, v, e) ==
  CASE f = "min_id" -> e.id >= v
    [] f = "max_id" -> e.id <= v
    [] f = "exclude_cancelled" -> v => e.ty \notin CancelledTypes
    [] f = "include_outstanding_only" -> v => ~e.conf
    [] f = "include_confirmed_only" -> v => e.conf
    [] f = "include_sent_only" -> v => e.ty \in SentTypes
    [] f = "include_received_only" -> v => e.ty \in ReceivedTypes
    [] f = "include_coinbase_only" -> v => e.ty = "ConfirmedCoinbase"
    [] f = "include_reverted_only" -> v => e.ty = "TxReverted"
    [] f = "min_amount" -> Net(e) >= v
    [] f = "max_amount" -> Net(e) <= v
    [] f = "min_creation_timestamp" -> e.cts >= v
    [] f = "max_creation_timestamp" -> e.cts <= v
    [] f = "min_confirmed_timestamp" -> e.fts = NoTs \/ e.fts >= v
    [] f = "max_confirmed_timestamp" -> e.fts = NoTs \/ e.fts <= v
SatAll(args, e) == \A f \in (DOMAIN args) \cap FilterFields : Sat(f, args[f], e)

(* The advanced query: exactly the active account's entries that satisfy   *)
(* every supplied criterion, stably sorted by the requested field and      *)
(* direction (ties keep store order), truncated to `limit` after sorting.  *)
Query(log, args, active) ==
  LET m == SelectSeq(log, LAMBDA e : e.acct = active /\ SatAll(args, e))
      sf == EffSort(args)
      s == IF IsDesc(args) THEN StableSortByKey(m, LAMBDA e : 0 - SortKeyOf(sf, e))
           ELSE StableSortByKey(m, LAMBDA e : SortKeyOf(sf, e))
  IN IF Has(args, "limit") THEN Take(s, args.limit) ELSE s

(* Legacy look-ups (tx_id / tx_slate_id given; query_args then ignored):   *)
(* the matching entries of the active account, oldest first.               *)
ByCreation(s) == StableSortByKey(s, LAMBDA e : e.cts)
ById(log, id, active) == ByCreation(SelectSeq(log, LAMBDA e : e.acct = active /\ e.id = id))
BySlate(log, sl, active) == ByCreation(SelectSeq(log, LAMBDA e : e.acct = active /\ e.slate = sl))
ListAll(log, active) == ByCreation(SelectSeq(log, LAMBDA e : e.acct = active))
OutstandingOnly(log, active) ==
  ByCreation(SelectSeq(log, LAMBDA e : e.acct = active /\ ~e.conf /\ e.ty \in LiveTypes))

\* the reference answer to any query
RunRef(log, active, q) ==
  IF ArgsEffective(q) THEN Query(log, q.args, active)
  ELSE ByCreation(SelectSeq(log, LAMBDA e : /\ e.acct = active
                                            /\ (q.id # NoId => e.id = q.id)
                                            /\ (q.slate # NoSlate => e.slate = q.slate)
                                            /\ (q.outstanding => ~e.conf /\ e.ty \in LiveTypes)))

(***************************************************************************)
(* 2. CODE  (transcription of libwallet/src/internal/updater.rs)           *)
(***************************************************************************)
(* Named deviations of the pinned code from the reference.                 *)
(*  "CreationUpperBoundReadsMinConfirmed"                                  *)
(*      updater.rs:245-251: the filter `creation_ts <= v` is guarded by    *)
(*      query_args.min_confirmed_timestamp instead of                      *)
(*      query_args.max_creation_timestamp.  Hence max_creation_timestamp   *)
(*      is never applied, and min_confirmed_timestamp also acts as an      *)
(*      UPPER bound on the CREATION time.                                  *)
(*  "AdvancedIgnoresAccount"                                               *)
(*      updater.rs:345-346: apply_advanced_tx_list_filtering is not given  *)
(*      parent_key_id; the advanced path returns entries of every account. *)
(* Not a deviation of the property (Layer P accepts any tie order) but a   *)
(* difference from the reference's tie order, always on:                   *)
(*      Desc is `sort ascending; reverse()`, so ties come out in REVERSE   *)
(*      store order (updater.rs:312-317).                                  *)
AllDevs == {"CreationUpperBoundReadsMinConfirmed", "AdvancedIgnoresAccount"}

\* the chain of .filter() closures of apply_advanced_tx_list_filtering, in code order
CF_exclude_cancelled(a, e) == IF Has(a, "exclude_cancelled") THEN (IF a.exclude_cancelled THEN e.ty # "TxReceivedCancelled" /\ e.ty # "TxSentCancelled" ELSE TRUE) ELSE TRUE
CF_outstanding(a, e) == IF Has(a, "include_outstanding_only") THEN (IF a.include_outstanding_only THEN ~e.conf ELSE TRUE) ELSE TRUE
CF_confirmed(a, e)   == IF Has(a, "include_confirmed_only") THEN (IF a.include_confirmed_only THEN e.conf ELSE TRUE) ELSE TRUE
CF_sent(a, e)        == IF Has(a, "include_sent_only") THEN (IF a.include_sent_only THEN e.ty = "TxSent" \/ e.ty = "TxSentCancelled" ELSE TRUE) ELSE TRUE
CF_received(a, e)    == IF Has(a, "include_received_only") THEN (IF a.include_received_only THEN e.ty = "TxReceived" \/ e.ty = "TxReceivedCancelled" ELSE TRUE) ELSE TRUE
CF_coinbase(a, e)    == IF Has(a, "include_coinbase_only") THEN (IF a.include_coinbase_only THEN e.ty = "ConfirmedCoinbase" ELSE TRUE) ELSE TRUE
CF_reverted(a, e)    == IF Has(a, "include_reverted_only") THEN (IF a.include_reverted_only THEN e.ty = "TxReverted" ELSE TRUE) ELSE TRUE
CF_min_id(a, e)      == IF Has(a, "min_id") THEN e.id >= a.min_id ELSE TRUE
CF_max_id(a, e)      == IF Has(a, "max_id") THEN e.id <= a.max_id ELSE TRUE
\* BigInt arithmetic in the code: no wrap-around, plain integers here
CodeNet(e) == IF e.ty = "TxSent" \/ e.ty = "TxSentCancelled" THEN e.db - e.cr ELSE e.cr - e.db
CF_min_amount(a, e)  == IF Has(a, "min_amount") THEN CodeNet(e) >= a.min_amount ELSE TRUE
CF_max_amount(a, e)  == IF Has(a, "max_amount") THEN CodeNet(e) <= a.max_amount ELSE TRUE
CF_min_creation(a, e) == IF Has(a, "min_creation_timestamp") THEN e.cts >= a.min_creation_timestamp ELSE TRUE
CF_creation_upper(a, e, dev) ==
  IF "CreationUpperBoundReadsMinConfirmed" \in dev
  THEN (IF Has(a, "min_confirmed_timestamp") THEN e.cts <= a.min_confirmed_timestamp ELSE TRUE)      \* as pinned
  ELSE (IF Has(a, "max_creation_timestamp") THEN e.cts <= a.max_creation_timestamp ELSE TRUE)       \* as repaired
CF_min_confirmed(a, e) == IF Has(a, "min_confirmed_timestamp") THEN (IF e.fts # NoTs THEN e.fts >= a.min_confirmed_timestamp ELSE TRUE) ELSE TRUE
CF_max_confirmed(a, e) == IF Has(a, "max_confirmed_timestamp") THEN (IF e.fts # NoTs THEN e.fts <= a.max_confirmed_timestamp ELSE TRUE) ELSE TRUE
CF_account(e, active, dev) == IF "AdvancedIgnoresAccount" \in dev THEN TRUE ELSE e.acct = active

CodeFilter(a, e, active, dev) ==
  /\ CF_account(e, active, dev)
  /\ CF_exclude_cancelled(a, e) /\ CF_outstanding(a, e) /\ CF_confirmed(a, e) /\ CF_sent(a, e)
  /\ CF_received(a, e) /\ CF_coinbase(a, e) /\ CF_reverted(a, e) /\ CF_min_id(a, e) /\ CF_max_id(a, e)
  /\ CF_min_amount(a, e) /\ CF_max_amount(a, e) /\ CF_min_creation(a, e) /\ CF_creation_upper(a, e, dev)
  /\ CF_min_confirmed(a, e) /\ CF_max_confirmed(a, e)

\* sort_by_key (stable) on the requested key, default id; Option<DateTime>: None first
CodeSortKey(a, e) ==
  IF Has(a, "sort_field")
  THEN CASE a.sort_field = "Id" -> e.id
         [] a.sort_field = "CreationTimestamp" -> e.cts
         [] a.sort_field = "ConfirmationTimestamp" -> e.fts
         [] a.sort_field = "TotalAmount" -> CodeNet(e)
         [] a.sort_field = "AmountCredited" -> e.cr
         [] a.sort_field = "AmountDebited" -> e.db
  ELSE e.id

AdvancedCode(log, a, active, dev) ==
  LET filtered == SelectSeq(log, LAMBDA e : CodeFilter(a, e, active, dev))        \* tx_log_iter().filter(..)...collect()
      sorted == StableSortByKey(filtered, LAMBDA e : CodeSortKey(a, e))           \* return_txs.sort_by_key(..)
      ordered == IF Has(a, "sort_order") /\ a.sort_order = "Desc" THEN Rev(sorted) ELSE sorted   \* return_txs.reverse()
  IN IF Has(a, "limit") THEN Take(ordered, a.limit) ELSE ordered                  \* .take(l as usize)

\* the else-branch of updater::retrieve_txs; owner::retrieve_txs always passes Some(parent_key_id)
LegacyCode(log, q, active) ==
  LET f_pk(e) == e.acct = active
      f_tx_id(e) == IF q.id # NoId THEN e.id = q.id ELSE TRUE
      f_txs(e) == IF q.slate # NoSlate THEN e.slate = q.slate ELSE TRUE
      f_outstanding(e) == IF q.outstanding THEN ~e.conf /\ (e.ty = "TxReceived" \/ e.ty = "TxSent" \/ e.ty = "TxReverted") ELSE TRUE
  IN StableSortByKey(SelectSeq(log, LAMBDA e : f_pk(e) /\ f_tx_id(e) /\ f_txs(e) /\ f_outstanding(e)),
                     LAMBDA e : e.cts)                                            \* txs.sort_by_key(|tx| tx.creation_ts)

\* `if query_args.is_some() && tx_id.is_none() && tx_slate_id.is_none()`
RunCode(log, active, q, dev) ==
  IF q.hasargs /\ q.id = NoId /\ q.slate = NoSlate
  THEN AdvancedCode(log, q.args, active, dev)
  ELSE LegacyCode(log, q, active)

(***************************************************************************)
(* 3. PROPERTY  (Layer P)                                                  *)
(***************************************************************************)
(* Three-valued reading of each criterion:                                 *)
(*    Must(f,v,e): under EVERY reasonable reading of the documentation e   *)
(*                 satisfies f = v   (so e has to be returned)             *)
(*    May(f,v,e):  under SOME reasonable reading e satisfies f = v         *)
(*                 (so e is allowed to be returned)                        *)
(* Must => Sat => May (checked by TLC in MCTxQuery).  They differ only     *)
(* where the documentation does not decide:                                *)
(*  - an entry without a confirmation time and a confirmation-time bound;  *)
(*  - "outstanding": certainly unconfirmed; whether an unconfirmed         *)
(*    cancelled/coinbase entry counts is left open (the legacy path says   *)
(*    no, the advanced path says yes);                                     *)
(*  - "sent"/"received": whether cancelled ones count, and whether a       *)
(*    reverted entry ("Received Tx - Reverted") is a received one.         *)
Must(f, v, e) ==
  CASE f = "include_outstanding_only" -> v => (~e.conf /\ e.ty \in LiveTypes)
    [] f = "include_sent_only" -> v => e.ty = "TxSent"
    [] f = "include_received_only" -> v => e.ty = "TxReceived"
    [] f = "min_confirmed_timestamp" -> e.fts # NoTs /\ e.fts >= v
    [] f = "max_confirmed_timestamp" -> e.fts # NoTs /\ e.fts <= v
    [] OTHER -> Sat(f, v, e)
May(f, v, e) ==
  CASE f = "include_received_only" -> v => e.ty \in (ReceivedTypes \cup {"TxReverted"})
    [] OTHER -> Sat(f, v, e)

(* The criteria a query carries (documentation of Owner::retrieve_txs:     *)
(* tx_id / tx_slate_id select; if either is given query_args is ignored).  *)
Criteria(q) ==
  (IF q.id # NoId THEN {"tx_id"} ELSE {}) \cup (IF q.slate # NoSlate THEN {"tx_slate_id"} ELSE {})
  \cup (IF q.outstanding THEN {"outstanding_only"} ELSE {})
  \cup ((DOMAIN EffArgs(q)) \cap FilterFields)
MustC(c, q, e) ==
  CASE c = "tx_id" -> e.id = q.id
    [] c = "tx_slate_id" -> e.slate = q.slate
    [] c = "outstanding_only" -> ~e.conf /\ e.ty \in LiveTypes
    [] OTHER -> Must(c, q.args[c], e)
MayC(c, q, e) ==
  CASE c = "tx_id" -> e.id = q.id
    [] c = "tx_slate_id" -> e.slate = q.slate
    [] c = "outstanding_only" -> ~e.conf
    [] OTHER -> May(c, q.args[c], e)
\* the entries that certainly have to be returned (before any limit)
MustSet(log, active, q) == {e \in SeqToSet(log) : e.acct = active /\ \A c \in Criteria(q) : MustC(c, q, e)}

\* -- ordering; an entry without confirmation time may sort before or after all others
BigKey == 1000000000
PKey(sf, e, np) == IF sf = "ConfirmationTimestamp" /\ e.fts = NoTs THEN (IF np = "low" THEN 0 - 1 ELSE BigKey) ELSE SortKeyOf(sf, e)
SortedUnder(obs, a, np) ==
  \A i \in 1..(Len(obs) - 1) :
     IF IsDesc(a) THEN PKey(EffSort(a), obs[i], np) >= PKey(EffSort(a), obs[i + 1], np)
     ELSE PKey(EffSort(a), obs[i], np) <= PKey(EffSort(a), obs[i + 1], np)
\* m comes strictly before r in the requested order
Before(m, r, a, np) ==
  IF IsDesc(a) THEN PKey(EffSort(a), m, np) > PKey(EffSort(a), r, np)
  ELSE PKey(EffSort(a), m, np) < PKey(EffSort(a), r, np)

\* -- the monitors, one name each
Mon_Ok(res) == res = "ok"
\* what comes back are entries of the store, each at most once
Mon_StoredEntries(log, obs) ==
  /\ \A i \in DOMAIN obs : obs[i] \in SeqToSet(log)
  /\ \A i, j \in DOMAIN obs : i # j => <<obs[i].acct, obs[i].id>> # <<obs[j].acct, obs[j].id>>
Mon_ActiveAccountOnly(active, obs) == \A i \in DOMAIN obs : obs[i].acct = active
\* every returned entry satisfies criterion c (evaluated on the RETURNED fields)
Mon_Sound(c, q, obs) == \A i \in DOMAIN obs : MayC(c, q, obs[i])
\* without a limit nothing that has to be returned is missing
Mon_Complete(log, active, q, obs) == MustSet(log, active, q) \subseteq SeqToSet(obs)
Mon_Sorted(q, obs) == \E np \in {"low", "high"} : SortedUnder(obs, EffArgs(q), np)
(* with limit L: at most L entries; if something that had to be returned is *)
(* missing, then the result is full and nothing missing sorts strictly      *)
(* before something returned (a prefix of SOME valid sorted answer)         *)
Mon_Limit(log, active, q, obs) ==
  LET a == EffArgs(q)
      missing == MustSet(log, active, q) \ SeqToSet(obs)
  IN /\ Len(obs) <= a.limit
     /\ missing # {} =>
          /\ Len(obs) = a.limit
          /\ \E np \in {"low", "high"} :
                /\ SortedUnder(obs, a, np)
                /\ \A m \in missing : \A i \in DOMAIN obs : ~Before(m, obs[i], a, np)

SoundName(c) == "Sound_" \o c
(* The set of monitors an answer (res, obs) to query q on `log` breaks.     *)
(* Limit is judged only on answers that are sound (it presupposes that the  *)
(* result consists of matching entries); Complete only without a limit.     *)
Violated(log, active, q, res, obs) ==
  IF ~Mon_Ok(res) THEN {"Ok"} ELSE
  LET a == EffArgs(q)
      basic == (IF Mon_StoredEntries(log, obs) THEN {} ELSE {"StoredEntries"})
               \cup (IF Mon_ActiveAccountOnly(active, obs) THEN {} ELSE {"ActiveAccountOnly"})
               \cup {SoundName(c) : c \in {d \in Criteria(q) : ~Mon_Sound(d, q, obs)}}
      order == IF ArgsEffective(q) /\ ~Mon_Sorted(q, obs) THEN {"Sorted"} ELSE {}
      compl == IF Has(a, "limit")
               THEN (IF basic = {} /\ ~Mon_Limit(log, active, q, obs) THEN {"Limit"} ELSE {})
               ELSE (IF Mon_Complete(log, active, q, obs) THEN {} ELSE {"Complete"})
  IN basic \cup order \cup compl

\* ------------------------------------------------------------ witnesses
\* criterion f of an advanced query discriminates on this log: dropping it changes the reference answer
Discriminates(log, active, args, f) ==
  Query(log, args, active) # Query(log, [g \in (DOMAIN args) \ {f} |-> args[g]], active)
DiscriminatingFields(log, active, q) ==
  IF ArgsEffective(q) THEN {f \in DOMAIN q.args : Discriminates(log, active, q.args, f)} ELSE {}
=============================================================================
