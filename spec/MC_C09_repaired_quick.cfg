\* every unchecked site repaired: Total must hold on the model as a hard invariant
CONSTANTS
  Depth = "quick"
  OverflowChecks = FALSE
  Emit = FALSE
  PanicSites = {}
SPECIFICATION Spec
INVARIANT TypeOK
INVARIANT Inv_Total
INVARIANT Inv_Bounded
CHECK_DEADLOCK FALSE
