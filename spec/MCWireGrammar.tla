---------------------------- MODULE MCWireGrammar ----------------------------
(***************************************************************************)
(* The decode pipeline of WireGrammar.tla as a state machine, one run per  *)
(* (case, entry point).  TLC explores every run of every enumerated case   *)
(* and checks on the MODEL                                                 *)
(*   Total    : a run never ends in a panic and never touches the store    *)
(*   Bounded  : a run takes at most MaxSteps steps (no unbounded loop)     *)
(*   Agrees   : the machine and the functional definition Run coincide     *)
(* and prints (GEN) the instances with their leaf lists and every case;    *)
(* harness/src/bin/replay_decode materialises them on the real code.       *)
(*                                                                         *)
(* With PanicSites = the unchecked slices / unwraps of the pinned code the *)
(* model itself violates Total: every violating (case, entry point) is     *)
(* printed as CEX and - like every other case - executed on the real code, *)
(* where TraceWireGrammar decides.  MC_C09_repaired.cfg (PanicSites = {})  *)
(* checks Total as a hard invariant: the pipeline with every site repaired *)
(* is total by construction of the readers.                                *)
(***************************************************************************)
EXTENDS WireGrammar, Json

CONSTANT Emit       \* TRUE: print INST / CASE lines (generation)

VARIABLES c, ep, s
vars == <<c, ep, s>>

Init == /\ c \in Cases
        /\ ep \in EPsFor(c)
        /\ s = Start
Next == /\ s.res = "run"
        /\ s' = Step(c, ep, s)
        /\ UNCHANGED <<c, ep>>
Spec == Init /\ [][Next]_vars

\* ------------------------------------------------------------- properties
TypeOK == /\ IsCase(c) /\ ep \in EntryPoints
          /\ s.res \in {"run", "ok", "err", "errm", "any", "panic"} /\ s.phase \in {"main", "fb"}
Inv_Total == TotalState(s)
\* reporting form: never stops TLC, prints the violating run
Report_Total == IF TotalState(s) THEN TRUE
                ELSE PrintT(<<"CEX", ToJson([inv |-> "Total", case |-> c, ep |-> ep, res |-> s.res, site |-> s.site])>>)
Inv_Bounded == s.steps <= MaxSteps(c, ep)
Inv_Agrees == (s.res # "run") => (s = Run(c, ep))
\* vacuity witnesses: runs that end each way exist
Wit_Ok == ~(s.res = "ok")
Wit_Err == ~(s.res = "err")
Wit_Fallback == ~(s.phase = "fb" /\ s.res = "ok")
Wit_Inner == ~(s.pend = "err")

\* ------------------------------------------------------------- generation
LeafOut(lf) == [n |-> lf.n, k |-> lf.k, w |-> lf.w, a |-> lf.a, of |-> lf.of]
InstOut(ch, i) ==
  [chain |-> ch, inst |-> i, shape |-> Instances[ch][i], slate |-> SlateShapes[Instances[ch][i].slate], eps |-> EPsOfChain(ch),
   layers |-> [k \in 1..Len(Chains[ch]) |->
                 [ly |-> Chains[ch][k], leaves |-> [j \in DOMAIN LeavesTable[ch][i][k] |-> LeafOut(LeavesTable[ch][i][k][j])]]]]
CaseOut(x) == [chain |-> x.chain, inst |-> x.inst, layer |-> x.layer, lname |-> x.lname, leaf |-> x.leaf, ln |-> x.ln,
               m |-> x.m, a |-> x.a, eps |-> EPsFor(x)]
ASSUME Emit => \A ch \in ChainNames : \A i \in DOMAIN Instances[ch] : PrintT(<<"INST", ToJson(InstOut(ch, i))>>)
ASSUME Emit => \A x \in Cases : PrintT(<<"CASE", ToJson(CaseOut(x))>>)
ASSUME PrintT(<<"NCASES", Cardinality(Cases)>>)
=============================================================================
