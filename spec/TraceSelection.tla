--------------------------- MODULE TraceSelection ---------------------------
(***************************************************************************)
(* Trace validation for C01.  Every line of the trace (harness/src/bin/    *)
(* replay_select) is one case executed on the REAL code:                   *)
(*     {i, c: the case TLC generated, o: what the code did}.               *)
(* For each line TLC evaluates                                             *)
(*   Layer P  the monitors of Selection!Contract on the OBSERVED outcome   *)
(*            (a failure prints VIOL with the monitor and the input class: *)
(*            this, and only this, is a verdict), and                      *)
(*   Layer M  refinement: the observed outcome is the one SelectRef        *)
(*            predicts for the pinned code or for a patched variant (a     *)
(*            mismatch prints NONCONF; a match that needs patches prints   *)
(*            VARIANT with the flags needed).                              *)
(* The spec never stops at a failure, so the whole trace is examined.      *)
(***************************************************************************)
EXTENDS Selection, TLC, Json, IOUtils, TLCExt

CONSTANT CheckM

VARIABLE l

Rec == ndJsonDeserialize(IOEnv.TRACE)

Case(j) == [fam |-> j.fam, outs |-> [i \in DOMAIN j.outs |->
                [v |-> j.outs[i].v, st |-> j.outs[i].st, h |-> j.outs[i].h, lk |-> j.outs[i].lk,
                 cb |-> j.outs[i].cb, acct |-> j.outs[i].acct]],
            amt |-> j.amt, incfee |-> j.incfee, height |-> j.height, minconf |-> j.minconf,
            maxouts |-> j.maxouts, nchange |-> j.nchange, useall |-> j.useall, src |-> j.src, flow |-> j.flow]

Tup(s) == [i \in DOMAIN s |-> s[i]]

\* the observed outcome in the vocabulary of Selection!Contract.  "kept" is
\* computed here from the raw facts the harness recorded: number of contexts in
\* the store, of log entries, of records under new keys, of injected records
\* that differ from what was injected.
Outcome(o) ==
  [res |-> o.res, errc |-> o.errc, amt |-> o.amt, camt |-> o.camt, fee |-> o.fee, cfee |-> o.cfee,
   ins |-> Tup(o.ins), invals |-> Tup(o.invals), change |-> Tup(o.change),
   kept |-> o.nctx = 0 /\ o.ntx = 0 /\ o.nnew = 0 /\ o.nchg = 0,
   fin |-> [on |-> o.fin.on, res |-> o.fin.res, errc |-> o.fin.errc, ins |-> Tup(o.fin.ins),
            invals |-> Tup(o.fin.invals), change |-> Tup(o.fin.change), fee |-> o.fin.fee,
            kept |-> o.fin.ntx = 0 /\ o.fin.nnew = 0 /\ o.fin.nchg = 0,
            valid |-> o.fin.valid, ntxin |-> o.fin.ntxin, ntxout |-> o.fin.ntxout]]

SetOf(s) == {s[i] : i \in DOMAIN s}

\* Layer M: observed = predicted.  Inputs of the finalisation are compared as a
\* set (the store shows which records are Locked, not the order of selection).
Match(r, x) ==
  /\ r.res = x.res
  /\ (x.errc # "*" => r.errc = x.errc)
  /\ r.res = "ok" => /\ r.amt = x.amt /\ r.fee = x.fee /\ r.ins = x.ins /\ r.change = x.change
                     /\ r.camt = x.amt /\ r.cfee = x.fee
  /\ r.res = "err" => r.kept = x.kept
  /\ r.fin.on = x.fin.on
  /\ r.fin.on => /\ r.fin.res = x.fin.res
                 /\ (x.fin.errc # "*" => r.fin.errc = x.fin.errc)
                 /\ r.fin.res = "ok" => /\ SetOf(r.fin.ins) = SetOf(x.fin.ins) /\ Len(r.fin.ins) = Len(x.fin.ins)
                                        /\ r.fin.change = x.fin.change /\ r.fin.fee = x.fin.fee
                 /\ r.fin.res = "err" => r.fin.kept = x.fin.kept

Pred(c, v) == AsOutcome(c, SelectRef(c, v))

LayerP(c, r, i) ==
  \A m \in Failed(c, r) :
    PrintT(<<"VIOL", ToJson([line |-> l, i |-> i, m |-> Monitors[m], cl |-> InputClass(c, Monitors[m])])>>)

LayerM(c, r, i) ==
  IF ~CheckM THEN TRUE
  ELSE IF Match(r, Pred(c, Orig)) THEN TRUE
  ELSE IF Match(r, Pred(c, AllFixed)) THEN PrintT(<<"VARIANT", ToJson([line |-> l, i |-> i, fixes |-> "all"])>>)
  ELSE IF \E v \in Variants : Match(r, Pred(c, v))
       THEN LET v == CHOOSE v \in Variants : Match(r, Pred(c, v)) IN
            PrintT(<<"VARIANT", ToJson([line |-> l, i |-> i, fixes |-> {f \in FixNames : v[f]}])>>)
       ELSE PrintT(<<"NONCONF", ToJson([line |-> l, i |-> i, obs |-> r, exp |-> Pred(c, Orig)])>>)

Step ==
  LET e == Rec[l]
      c == Case(e.c)
  IN IF e.o.res \notin {"ok", "err", "panic", "hang"}
     THEN PrintT(<<"SKIP", ToJson([line |-> l, i |-> e.i, why |-> e.o.detail])>>)
     ELSE LET r == Outcome(e.o) IN LayerP(c, r, e.i) /\ LayerM(c, r, e.i)

TInit == l = 1
TNext == l <= Len(Rec) /\ Step /\ l' = l + 1
TSpec == TInit /\ [][TNext]_l

Consumed == IF TLCGet("stats").diameter - 1 = Len(Rec) THEN PrintT(<<"CONSUMED", Len(Rec)>>)
            ELSE PrintT(<<"STUCK", TLCGet("stats").diameter>>)
=============================================================================
