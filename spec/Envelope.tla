------------------------------ MODULE Envelope ------------------------------
(***************************************************************************)
(* C10  Encrypted slatepacks are readable only by their recipients and     *)
(*      tamper-evident; corrupted armored text is reported, never decoded  *)
(*      to a different slate.                                              *)
(*                                                                         *)
(* Code-shaped model of libwallet/src/slatepack/{types,packer,armor}.rs    *)
(* and of the three owner functions create_slatepack_message,              *)
(* slate_from_slatepack_message, decode_slatepack_message                  *)
(* (libwallet/src/api_impl/owner.rs) at the pinned commit.                 *)
(*                                                                         *)
(*  Part 1  the slatepack: what is public and what is inside the age       *)
(*          ciphertext (Pack, encoded forms, ClearAtoms, opening)          *)
(*  Part 2  the armor: a token-level transcription of deser_slatepack +    *)
(*          SlatepackArmor::decode, single-character edits, the edit       *)
(*          labels and the label-level prediction PredEdit                 *)
(*  Part 3  the binary form: SlatepackBin::read at field level, byte-edit  *)
(*          labels and PredBin                                             *)
(*  Part 4  the property as explicit operators (used by MCEnvelope on the  *)
(*          model and by TraceEnvelope on data observed from the code)     *)
(*                                                                         *)
(* Abstract cryptography (DESIGN 2.1): age encryption to a recipient set R *)
(* is the term Age(R, ..); it opens with k iff k \in R; any change of a    *)
(* byte of the container is rejected (assumption A2, the age crate is      *)
(* trusted); the 4-byte double-SHA256 armor check is collision free on     *)
(* single edits (assumption A1).  The real code is the oracle for both:    *)
(* the Layer-P monitors judge what it actually did.                        *)
(*                                                                         *)
(* Named deviations / abstractions:                                        *)
(*   Havoc_RawParse   text that does not start with the exact header is    *)
(*                    handed to the binary/JSON slatepack parsers; the     *)
(*                    model answers "err" (ASCII armor text is neither)    *)
(*   A1_CheckPasses   the check passes iff the cleaned payload is the      *)
(*                    original one (no 32-bit collision on single edits)   *)
(*   A2_AgeIntact     age opens iff its bytes are the ones produced        *)
(*   Scaled words     the 14/12-letter frame words and the payload are     *)
(*                    scaled down to 2 letters / 7 characters              *)
(***************************************************************************)
EXTENDS Integers, Sequences, FiniteSets, TLC

None == "none"

(***************************************************************************)
(* Keys.  A key name stands for an ed25519 key pair = a slatepack address  *)
(* and its secret; KeyHome says which wallet derives it at which index of  *)
(* the address derivation path (address_from_derivation_path).             *)
(***************************************************************************)
KeyHome == ( "k1" :> [w |-> "w1", idx |-> 0] @@ "k2" :> [w |-> "w1", idx |-> 1] @@
             "k3" :> [w |-> "w2", idx |-> 0] @@ "k4" :> [w |-> "w2", idx |-> 3] @@
             "k5" :> [w |-> "w3", idx |-> 0] )
AllKeys   == DOMAIN KeyHome                         \* openers
RecipKeys == {"k1", "k2", "k3", "k4"}               \* possible recipients
\* create_slatepack_message takes a sender *index* of the packing wallet (w1)
SenderKeys == {k \in AllKeys : KeyHome[k].w = "w1"}

(***************************************************************************)
(* Part 1.  The slatepack                                                  *)
(***************************************************************************)
\* payload terms (flat so that records compare without surprises)
\*   plain : the V4 binary encoding of slate s
\*   age   : ciphertext to recipient set R of  metadata(sender msnd) ++ slate s
Plain(s)        == [t |-> "slate", s |-> s, R |-> {}, msnd |-> None]
Age(R, msnd, s) == [t |-> "age",   s |-> s, R |-> R,  msnd |-> msnd]

\* struct Slatepack (types.rs:37): mode, sender (public header), encrypted_meta
\* (only its sender matters: the API never adds recipients to it), payload
Slatepack(mode, sender, meta, payload) ==
  [mode |-> mode, sender |-> sender, meta |-> meta, payload |-> payload]

\* try_encrypt_payload (types.rs:139).  MetaKept = TRUE is the pinned commit:
\* the sender is *copied* into encrypted_meta and the copy stays in the struct
\* after it was serialised into the plaintext; FALSE is the repaired code.
TryEncrypt(sp, R, MetaKept) ==
  IF R = {} THEN sp
  ELSE Slatepack(1, None, IF MetaKept THEN sp.sender ELSE None,
                 Age(R, sp.sender, sp.payload.s))

\* Slatepacker::create_slatepack (packer.rs:97)
CreateSlatepack(s, snd, R, MetaKept) ==
  TryEncrypt(Slatepack(0, snd, None, Plain(s)), R, MetaKept)
Pack(s, snd, R, MetaKept) == CreateSlatepack(s, snd, R, MetaKept)

\* --- encoded forms.  SlatepackBin::write (types.rs:303) writes version,
\* mode, flags, the header sender and the payload - never encrypted_meta.
\* The serde JSON form (what PathToSlatepack::put_tx(.., as_bin = false) and
\* Display write) serialises encrypted_meta whenever it is not empty.
BinForm(sp)   == [f |-> "bin",  mode |-> sp.mode, sender |-> sp.sender, meta |-> None,    payload |-> sp.payload]
JsonForm(sp)  == [f |-> "json", mode |-> sp.mode, sender |-> sp.sender, meta |-> sp.meta, payload |-> sp.payload]
\* SlatepackArmor::encode = frame + base58(check ++ bin form): same content as bin
ArmorForm(sp) == [BinForm(sp) EXCEPT !.f = "armor"]
Forms(sp) == [armor |-> ArmorForm(sp), bin |-> BinForm(sp), json |-> JsonForm(sp)]

\* --- what a reader WITHOUT any key can extract from an encoded form
\* (age x25519 stanzas are anonymous: their number is visible, not who)
ClearAtoms(f) ==
     {<<"mode", f.mode>>}
  \cup (IF f.sender # None THEN {<<"addr", f.sender>>} ELSE {})
  \cup (IF f.meta # None THEN {<<"addr", f.meta>>} ELSE {})
  \cup (IF f.payload.t = "slate" THEN {<<"slate", f.payload.s>>}
        ELSE {<<"nrecip", Cardinality(f.payload.R)>>})

\* --- reading back.  SlatepackBin::read sets encrypted_meta to default; the
\* JSON reader keeps whatever the text says.
ReadForm(f) == Slatepack(f.mode, f.sender, f.meta, f.payload)

Res(res, sp) == [res |-> res, sp |-> sp]
NoSp == Slatepack(0, None, None, Plain(None))

\* try_decrypt_payload (types.rs:182); k = None : no key was supplied
TryDecrypt(sp, k) ==
  IF sp.mode = 0 THEN Res("ok", sp)
  ELSE IF k = None THEN Res("ok", sp)                       \* Ok(()), still encrypted
  ELSE IF sp.payload.t # "age" THEN Res("err:age", NoSp)    \* mode says 1, bytes are no age file
  ELSE IF k \in sp.payload.R                                \* A2
       THEN Res("ok", Slatepack(0, sp.payload.msnd, None, Plain(sp.payload.s)))
       ELSE Res("err:age", NoSp)                            \* no matching keys

\* Slatepacker::deser_slatepack(data, decrypt = TRUE) on an intact encoded form
DeserSlatepack(f, k) == TryDecrypt(ReadForm(f), k)

\* Slatepacker::get_slate (packer.rs:114): the payload must parse as a V4 binary slate
SlateRes(res, s, snd, mode) == [res |-> res, slate |-> s, sender |-> snd, mode |-> mode]
GetSlate(sp) ==
  IF sp.payload.t = "slate" THEN SlateRes("ok", sp.payload.s, sp.sender, sp.mode)
  ELSE SlateRes("err:deser", None, sp.sender, sp.mode)      \* ciphertext is not a slate

\* owner::slate_from_slatepack_message (owner.rs:180): ks is the sequence of
\* keys of the calling wallet named by secret_indices
RECURSIVE SlateLoop(_, _, _)
SlateLoop(f, ks, i) ==
  IF i > Len(ks) THEN SlateRes("err:decryption", None, None, -1)
  ELSE LET r == DeserSlatepack(f, ks[i]) IN
       IF r.res = "ok" THEN GetSlate(r.sp) ELSE SlateLoop(f, ks, i + 1)
SlateFromMessage(f, ks) ==
  IF ks = <<>> THEN LET r == DeserSlatepack(f, None) IN
                    IF r.res = "ok" THEN GetSlate(r.sp) ELSE SlateRes(r.res, None, None, -1)
  ELSE SlateLoop(f, ks, 1)

\* owner::decode_slatepack_message (owner.rs:231): like the above, but a wallet
\* that cannot decrypt gets the undecrypted slatepack back
RECURSIVE DecodeLoop(_, _, _)
DecodeLoop(f, ks, i) ==
  IF i > Len(ks) THEN Res("ok", ReadForm(f))                \* deser_slatepack(.., false)
  ELSE LET r == DeserSlatepack(f, ks[i]) IN
       IF r.res = "ok" THEN r ELSE DecodeLoop(f, ks, i + 1)
DecodeMessage(f, ks) == IF ks = <<>> THEN Res("ok", ReadForm(f)) ELSE DecodeLoop(f, ks, 1)
\* ... followed by get_slate on what came back (how a caller obtains the slate)
SlateViaDecode(f, ks) == LET r == DecodeMessage(f, ks) IN
                         IF r.res = "ok" THEN GetSlate(r.sp) ELSE SlateRes(r.res, None, None, -1)

(***************************************************************************)
(* Part 2.  The armor, token level                                         *)
(*                                                                         *)
(* A text is a sequence of one-character tokens.  Classes:                 *)
(*   "d"  the delimiter '.'                                                *)
(*   "w"  characters the decoder discards: ' ' '\n' '\r' '\t' '>'          *)
(*   "b"  characters of the base58 alphabet                                *)
(*   "x"  anything else (0 O I l, punctuation, control, non-ASCII)         *)
(***************************************************************************)
HW == <<"H1", "H2">>            \* "BEGINSLATEPACK" scaled to two letters
FW == <<"F1", "F2">>            \* "ENDSLATEPACK"
WsTok  == {"_", "~"}            \* two different whitespace-class characters
B58Tok == {"a", "b", "c"}
\* the frame words are letters; one of them ('I' of BEGINSLATEPACK) is not a base58 digit
Cls(c) == IF c = "." THEN "d" ELSE IF c \in WsTok THEN "w"
          ELSE IF c \in B58Tok \cup {"H1", "F1", "F2"} THEN "b" ELSE "x"

\* the text SlatepackArmor::encode produces: format_slatepack puts a space
\* before every 15th character (the header is exactly one word, so a space
\* follows its dot), a newline every 200 words, FOOTER = ". ENDSLATEPACK."
\* and a final "\n".  The payload has an equal adjacent pair (a a) so that a
\* transposition without effect exists.
OrigPayload == <<"_", "a", "a", "b", "_", "c", "a">>
OrigText == HW \o <<".">> \o OrigPayload \o <<".", "_">> \o FW \o <<".", "~">>
Strip(seq) == SelectSeq(seq, LAMBDA c : Cls(c) # "w")
OrigClean == Strip(OrigPayload)

\* iter().take_while(|b| b != '.') starting at 1-based position `from`
RECURSIVE UntilDot(_, _)
UntilDot(t, from) == IF from > Len(t) \/ t[from] = "." THEN <<>> ELSE <<t[from]>> \o UntilDot(t, from + 1)

\* HEADER_REGEX / FOOTER_REGEX:  ^[>\n\r\t ]*WORD[>\n\r\t ]*$
RECURSIVE DropWs(_)
DropWs(s) == IF s # <<>> /\ Cls(s[1]) = "w" THEN DropWs(Tail(s)) ELSE s
RECURSIVE DropWsEnd(_)
DropWsEnd(s) == IF s # <<>> /\ Cls(s[Len(s)]) = "w" THEN DropWsEnd(SubSeq(s, 1, Len(s) - 1)) ELSE s
FrameOk(s, word) == DropWsEnd(DropWs(s)) = word

MinPayloadChars == 1     \* scaled: base_decode[0..4] needs 4 decoded bytes

\* error_check (armor.rs:121): the 4 check bytes in front of the decoded payload are the
\* double SHA-256 of the rest.  A1: for the texts considered here (one edit away from a
\* produced one) that holds only for the original characters.
A1_CheckPasses(clean) == clean = OrigClean

\* SlatepackArmor::decode (armor.rs:66).  Results: [r |-> "ok", c |-> payload characters],
\* "err:<stage>", "panic:<site>".
AR(r, c) == [r |-> r, c |-> c]
ArmorDecode(t) ==
  LET hdr == UntilDot(t, 1) IN
  IF ~FrameOk(hdr, HW) THEN AR("err:header", <<>>) ELSE
  LET hl == Len(hdr) + 1 IN                                  \* header_len
  IF hl > Len(t) THEN AR("panic:slice-header", <<>>) ELSE     \* armor_bytes[header_len..]
  LET pay == UntilDot(t, hl + 1)
      consumed == hl + Len(pay) + 1 IN
  IF consumed > Len(t) THEN AR("panic:slice-footer", <<>>) ELSE   \* armor_bytes[consumed_bytes..]
  LET ftr == UntilDot(t, consumed + 1) IN
  IF ~FrameOk(ftr, FW) THEN AR("err:footer", <<>>) ELSE
  LET clean == Strip(pay) IN
  IF \E i \in 1..Len(clean) : Cls(clean[i]) # "b" THEN AR("err:base58", <<>>) ELSE
  IF Len(clean) < MinPayloadChars THEN AR("panic:slice-check", <<>>) ELSE   \* base_decode[0..4]
  IF ~A1_CheckPasses(clean) THEN AR("err:check", <<>>) ELSE
  AR("ok", clean)

Havoc_RawParse(t) == AR("err:raw", <<>>)
\* Slatepacker::deser_slatepack up to the slatepack bytes (packer.rs:51)
DeserText(t) ==
  IF Len(t) < Len(HW) + 1 THEN AR("err:len", <<>>)           \* min_size = HEADER.len()
  ELSE IF SubSeq(t, 1, Len(HW) + 1) = HW \o <<".">> THEN ArmorDecode(t)
  ELSE Havoc_RawParse(t)
ErrResults == {"err:header", "err:footer", "err:base58", "err:check", "err:raw", "err:len"}
\* what an attempt to read the slate out of text t ends in: the original bytes give the
\* original slate; other bytes that got past the check are some other slatepack ("diff":
\* a different slate, or whatever the binary parser makes of them)
TextOutcome(t) == LET r == DeserText(t) IN
                  IF r.r = "ok" THEN (IF r.c = OrigClean THEN "same" ELSE "diff")
                  ELSE IF r.r \in ErrResults THEN "err" ELSE "panic"

\* --- single-character edits
InsTok == {"a", "b", "_", "~", "#", "."}
Edit(k, pos, ch) == [k |-> k, pos |-> pos, ch |-> ch]
EditSet(t) ==
       {Edit("sub", p, c) : p \in 1..Len(t), c \in InsTok}
  \cup {Edit("del", p, "") : p \in 1..Len(t)}
  \cup {Edit("ins", p, c) : p \in 1..(Len(t) + 1), c \in InsTok}
  \cup {Edit("swap", p, "") : p \in 1..(Len(t) - 1)}
RealEdit(t, e) == ~(e.k = "sub" /\ t[e.pos] = e.ch)
ApplyEdit(t, e) ==
  CASE e.k = "sub"  -> [t EXCEPT ![e.pos] = e.ch]
    [] e.k = "del"  -> SubSeq(t, 1, e.pos - 1) \o SubSeq(t, e.pos + 1, Len(t))
    [] e.k = "ins"  -> SubSeq(t, 1, e.pos - 1) \o <<e.ch>> \o SubSeq(t, e.pos, Len(t))
    [] e.k = "swap" -> [t EXCEPT ![e.pos] = t[e.pos + 1], ![e.pos + 1] = t[e.pos]]

\* --- labels: the class of an edit relative to the layout of the ORIGINAL
\* text (the harness computes the same function on real messages)
RECURSIVE DotPositions(_, _)
DotPositions(t, i) == IF i > Len(t) THEN <<>> ELSE (IF t[i] = "." THEN <<i>> ELSE <<>>) \o DotPositions(t, i + 1)
RECURSIVE SkipWs(_, _)
SkipWs(t, i) == IF i <= Len(t) /\ Cls(t[i]) = "w" THEN SkipWs(t, i + 1) ELSE i
Layout(t) == LET d == DotPositions(t, 1) IN [hd |-> d[1], fd |-> d[2], fw |-> SkipWs(t, d[2] + 1), ed |-> d[3]]
Reg(L, p) == IF p < L.hd THEN "hw" ELSE IF p = L.hd THEN "hd" ELSE IF p < L.fd THEN "pay"
             ELSE IF p = L.fd THEN "fd" ELSE IF p < L.fw THEN "fs" ELSE IF p < L.ed THEN "fw"
             ELSE IF p = L.ed THEN "ed" ELSE "tr"
\* slot of an insertion BEFORE the character at p
Slot(L, p) == IF p <= L.hd THEN "hdr" ELSE IF p <= L.fd THEN "pay" ELSE IF p <= L.fw THEN "fpre"
              ELSE IF p < L.ed THEN "fw" ELSE IF p = L.ed THEN "fpost" ELSE "tr"
Lbl(k, r, r2, o, n, eq) == [k |-> k, r |-> r, r2 |-> r2, o |-> o, n |-> n, eq |-> eq]
Label(t, e) ==
  LET L == Layout(t) IN
  CASE e.k = "sub"  -> Lbl("sub", Reg(L, e.pos), "", Cls(t[e.pos]), Cls(e.ch), FALSE)
    [] e.k = "del"  -> Lbl("del", Reg(L, e.pos), "", Cls(t[e.pos]), "", FALSE)
    [] e.k = "ins"  -> Lbl("ins", Slot(L, e.pos), "", "", Cls(e.ch), FALSE)
    [] e.k = "swap" -> Lbl("swap", Reg(L, e.pos), Reg(L, e.pos + 1), Cls(t[e.pos]), Cls(t[e.pos + 1]),
                           t[e.pos] = t[e.pos + 1])

\* --- label-level prediction of the outcome ("same" / "err"): what
\* DeserText does with an edit of that class.  MCEnvelope proves it equal to
\* the token-level decoder for every edit of OrigText (Inv_PredMatches); the
\* trace spec compares it with what the real code did (Layer M).
PredEdit(l) ==
  CASE l.k = "sub" ->
         (CASE l.r \in {"hw", "hd", "fd", "fw"} -> "err"      \* exact-prefix test / frame word / payload runs into the footer
            [] l.r = "pay" -> IF l.o = "w" /\ l.n = "w" THEN "same" ELSE "err"
            [] l.r \in {"fs", "ed"} -> IF l.n = "w" THEN "same" ELSE "err"
            [] l.r = "tr" -> "same")                          \* nothing after the last dot is read
    [] l.k = "del" ->
         (CASE l.r \in {"hw", "hd", "fd", "fw"} -> "err"
            [] l.r = "pay" -> IF l.o = "w" THEN "same" ELSE "err"
            [] l.r \in {"fs", "ed", "tr"} -> "same")
    [] l.k = "ins" ->
         (CASE l.r \in {"hdr", "fw"} -> "err"
            [] l.r \in {"pay", "fpre"} -> IF l.n = "w" THEN "same" ELSE "err"
            [] l.r = "fpost" -> IF l.n \in {"w", "d"} THEN "same" ELSE "err"
            [] l.r = "tr" -> "same")
    [] l.k = "swap" ->
         IF l.eq THEN "same"
         ELSE (CASE l.r = "pay" /\ l.r2 = "pay" -> IF l.o = "w" \/ l.n = "w" THEN "same" ELSE "err"
                 [] l.r = "fd" /\ l.r2 = "fs" -> "same"       \* ". E" -> " .E": the blank joins the payload
                 [] l.r = "ed" /\ l.r2 = "tr" -> "same"       \* "K.\n" -> "K\n.": the blank joins the footer
                 [] l.r = "tr" -> "same"
                 [] OTHER -> "err")

\* an edit that certainly changes the payload characters themselves: a base58
\* character strictly inside the payload region is replaced, removed, added
\* or moved past a different base58 character
Significant(l) ==
  CASE l.k = "sub" -> l.r = "pay" /\ (l.o = "b" \/ l.n = "b")
    [] l.k = "del" -> l.r = "pay" /\ l.o = "b"
    [] l.k = "ins" -> l.r = "pay" /\ l.n = "b"
    [] l.k = "swap" -> l.r = "pay" /\ l.r2 = "pay" /\ l.o = "b" /\ l.n = "b" /\ ~l.eq

(***************************************************************************)
(* Part 3.  The binary form of an ENCRYPTED slatepack without a clear      *)
(* sender, field level (SlatepackBin::read, types.rs:337)                  *)
(*   ver(2) mode(1) flags(2: hi, lo) optlen(4) plen(8) payload = age file  *)
(*   age file: version line, stanza lines, "--- " + MAC line, nonce, body  *)
(***************************************************************************)
HdrRegions == {"ver", "mode", "fl_hi", "fl_lo", "optlen", "plen"}
AgeRegions == {"age_v", "age_st", "age_sb", "age_dash", "age_mac", "age_nonce", "age_body"}
\* a field-level edit of the written record b = [ver, mode, fl_lo_odd, optlen_ok, plen_ok, age_ok]
WrittenBin == [ver |-> "1.0", mode |-> 1, fl_lo_odd |-> FALSE, optlen_ok |-> TRUE, plen_ok |-> TRUE,
               age_ok |-> TRUE, aligned |-> TRUE]
\* SlatepackBin::read followed by try_decrypt_payload(key of a recipient) and get_slate
ReadBin(b) ==
  IF ~b.aligned THEN "err"              \* a byte was removed/added before the payload: every later field is read from the wrong place
  ELSE IF b.mode > 1 THEN "err"         \* UnexpectedData
  ELSE IF b.fl_lo_odd THEN "err"        \* flag 0x01: a SlatepackAddress is read where the payload length is
  ELSE IF ~b.optlen_ok THEN "err"       \* skips into the payload, length prefix read from there
  ELSE IF ~b.plen_ok THEN "err"         \* short read / TooLargeReadErr / truncated age file
  ELSE IF b.mode = 0 THEN "err"         \* taken for a plain payload: an age file is not a V4 slate
  ELSE IF ~b.age_ok THEN "err"          \* A2_AgeIntact
  ELSE "same"                           \* version bytes and the other 15 flag bits are not authenticated
\* Havoc_AgeMacPadding: age 0.7.1 reads the 43 base64 digits of the header MAC with a
\* decoder that tolerates '=' as the last digit; the decoded MAC is unchanged iff its last
\* byte is zero.  A substitution by '=' in the MAC line is therefore accepted for that one
\* position of one container in 256, and rejected otherwise (A2 does not hold there).
\* label-level prediction for single-byte edits of the binary form: the SET of outcomes
\* edits of that class may have
PredBin(l) ==
  CASE l.k = "sub" ->
         (CASE l.r \in {"ver", "fl_hi"} -> {"same"}
            [] l.r = "fl_lo" -> IF l.n = "odd" THEN {"err"} ELSE {"same"}
            [] l.r = "age_mac" /\ l.n = "pad" -> {"same", "err"}     \* Havoc_AgeMacPadding
            [] OTHER -> {"err"})
    [] l.k = "del" -> {"err"}
    [] l.k = "ins" -> IF l.r = "end" THEN {"same"} ELSE {"err"}   \* bytes after the payload are never read
    [] l.k = "swap" -> IF l.eq \/ (l.r = "ver" /\ l.r2 = "ver") THEN {"same"} ELSE {"err"}
\* an edit that changes the bytes of the encrypted payload
SignificantBin(l) ==
  CASE l.k \in {"sub", "del", "ins"} -> l.r \in AgeRegions
    [] l.k = "swap" -> ~l.eq /\ (l.r \in AgeRegions \/ l.r2 \in AgeRegions)

(***************************************************************************)
(* Part 3b.  The JSON form of an ENCRYPTED slatepack (serde derive of      *)
(* struct Slatepack, pretty printed):                                      *)
(*   { "slatepack": "1.0", "mode": 1, ["encrypted_meta": {..},]            *)
(*     "payload": "<base64 of the age file, padded>" }                     *)
(* Regions: j_ver, j_mode, j_meta (inside the braces of encrypted_meta),   *)
(* j_pl (the base64 digits), j_last (the last digit when padding follows:  *)
(* 2 or 4 of its bits are not payload and libwallet's base64 0.9 ignores   *)
(* them), j_pad (the '=' after the digits), j_struct (all the rest).  Character classes: "g" base64 digit, "p" '=', "w" JSON      *)
(* whitespace, "q" '"', "x" other.                                         *)
(* Havoc_JsonSyntax: what serde_json makes of an edit outside the payload  *)
(* digits (ignored unknown key, blank, broken syntax, another version,     *)
(* mode 0) is not modelled: "same" or "err".                               *)
(***************************************************************************)
JsonRegions == {"j_ver", "j_mode", "j_meta", "j_pl", "j_last", "j_pad", "j_struct"}
\* an edit that changes the base64 digits of the payload, hence the bytes of the age file
\* (edits of j_last may leave the bytes as they are and are not counted)
SignificantJson(l) ==
  CASE l.k = "sub" -> l.r = "j_pl" /\ l.o = "g"
    [] l.k = "del" -> l.r = "j_pl" /\ l.o = "g"
    [] l.k = "ins" -> l.r = "j_pl"
    [] l.k = "swap" -> l.r = "j_pl" /\ l.r2 = "j_pl" /\ ~l.eq
PredJson(l) == IF SignificantJson(l) THEN {"err"}                  \* base64 error, or A2
               ELSE IF l.k = "swap" /\ l.eq THEN {"same"}
               ELSE {"same", "err"}                                \* Havoc_JsonSyntax
\* field-level effect: the payload digits are damaged, or (havoc) the rest still parses or not
ReadJson(sig, parses) == IF sig THEN "err" ELSE IF parses THEN "same" ELSE "err"

\* a printable name of an edit class (violation keys)
LabelKey(form, l) == form \o ":" \o l.k \o ":" \o l.r \o (IF l.r2 = "" THEN "" ELSE "-" \o l.r2)
                     \o ":" \o l.o \o ">" \o l.n \o (IF l.eq THEN ":eq" ELSE "")

(***************************************************************************)
(* Part 4.  The property                                                   *)
(***************************************************************************)
\* who is able to open a pack made for recipient set R
CanOpen(k, R) == k \in R
AnyCanOpen(ks, R) == \E i \in 1..Len(ks) : CanOpen(ks[i], R)

\* P1 (a) an encrypted pack opens for a key sequence iff it holds a recipient key,
\*    (b) what opens is the original slate, (c) an unencrypted pack opens for everybody
OpenIffRecipient(R, ks, res) == R # {} => ((res = "ok") <=> AnyCanOpen(ks, R))
OpenedIsOriginal(s, res, same) == res = "ok" => same
PlainOpens(R, res) == R = {} => res = "ok"
\* P2 the sender a reader is told is the original one when the reader could open
\*    (or the pack is not encrypted) and nobody otherwise
SenderFaithful(snd, R, ks, sender) ==
  IF R = {} \/ AnyCanOpen(ks, R) THEN sender = snd ELSE sender = None
\* P3 the encoded form of an encrypted pack shows neither the slate nor the sender
NoClearAtoms(s, snd, R, atoms) ==
  R # {} => /\ <<"slate", s>> \notin atoms
            /\ (snd # None => <<"addr", snd>> \notin atoms)
\* P4 an edited message decodes to the same slate or is rejected - never a
\*    different slate, never a crash (Appendix B "Armor edits")
SameOrErr(out) == out \in {"same", "err"}
\* P5 a modification of the encrypted payload is rejected
EditedEncryptedRejected(R, significant, out) == (R # {} /\ significant) => out = "err"
=============================================================================
