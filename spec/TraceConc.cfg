SPECIFICATION TSpec
POSTCONDITION Consumed
CHECK_DEADLOCK FALSE
