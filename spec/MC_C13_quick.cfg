CONSTANTS
  MaxGen = 2
  MaxAcct = 1
  MaxLen = 6
  TamperSet = {"body", "nonce", "trunc", "nonce_ext", "nonce_short", "plainbody"}
  OuterSet = {"ok", "other", "init", "noid", "seq"}
  RawSet = {"notjson", "string", "emptyarr", "nomethod", "dup_init_last", "dup_init_first"}
  RepInner = {"new_account", "init", "open"}
  FullProduct = FALSE
  Open0Set = {FALSE, TRUE}
  ForeignSet = {TRUE}
SPECIFICATION Spec
INVARIANT TypeOK
PROPERTY Prop_Gate
PROPERTY EmitEdges
VIEW View
CHECK_DEADLOCK FALSE
