CONSTANTS
  MaxBak = 3
  MaxOps = 2
  MaxSeeds = 2
  MaxPws = 3
  FirstOk = FALSE
SPECIFICATION Spec
INVARIANT TypeOK
INVARIANT Inv_Recoverable
INVARIANT Inv_OpenSound
PROPERTY Prop_Completed
PROPERTY Prop_WrongPwRefused
PROPERTY EmitSched
CHECK_DEADLOCK FALSE
