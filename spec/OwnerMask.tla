----------------------------- MODULE OwnerMask -----------------------------
(***************************************************************************)
(* C14  A masked wallet does nothing without the right token.              *)
(*                                                                         *)
(* A code-shaped model of how every method of grin_wallet_api::Owner       *)
(* (api/src/owner.rs, pinned commit) reaches                               *)
(*     LMDBBackend::keychain(mask)        impls/src/backends/lmdb.rs:227   *)
(* - the ONE place where the token handed to the call is checked - and of  *)
(* what the method does before and after that point.                       *)
(*                                                                         *)
(*  * Secrets are sets of atoms and XOR is symmetric difference, so        *)
(*    "stored master key = master XOR mask" and "unmask with the token"    *)
(*    are computed, not assumed.                                           *)
(*  * Every (method, variant) is a PROGRAM: the sequence of abstract steps *)
(*    the code performs, in the order the code performs them (wallet_inst, *)
(*    argument checks, node calls, keychain consultations, batch commits,  *)
(*    volatile writes), transcribed from api/src/owner.rs,                 *)
(*    libwallet/src/api_impl/{owner,foreign}.rs and libwallet/src/internal.*)
(*    Exec runs a program against a wallet record and a token.             *)
(*  * The property is three families of predicates over ONE observed call  *)
(*    (result class, store untouched?, what the unmasked twin did):        *)
(*    MaskSound, MaskTransparent, ClosedIsDead.  The same operators are    *)
(*    evaluated by MCOwnerMask on the model's own results and by           *)
(*    TraceOwnerMask on results recorded from the real code.               *)
(*                                                                         *)
(* Deliberate under-modelling (named):                                     *)
(*   Dev_Facts     the store content is a handful of facts (what the       *)
(*                 scenario's roles need), not Wallet.tla's full state;    *)
(*                 `ver` counts commits.                                   *)
(*   Dev_Updater   start_updater is one synchronous refresh.               *)
(*   Dev_NoTor     init_send_tx/process_invoice_tx `send_args` (network    *)
(*                 delivery) are not modelled nor exercised.               *)
(*   Lifecycle methods (create_config, create_wallet, open_wallet,         *)
(*   close_wallet, get_mnemonic, change_password, delete_wallet,           *)
(*   set_top_level_directory) take no token; they are authenticated by     *)
(*   password and judged by C12.  open/close appear here as transitions.   *)
(***************************************************************************)
EXTENDS Naturals, Integers, Sequences, FiniteSets, TLC

\* ------------------------------------------------------------ XOR algebra
\* a 256-bit value = the set of atoms whose XOR it is; {} is zero
Xor(a, b) == (a \ b) \cup (b \ a)
Master == {"M"}                       \* the wallet's master secret key
MaskOf(g) == {"mask" \o ToString(g)}  \* the random mask drawn by the g-th open_wallet(use_mask = true)
\* Blake2b(root key) is injective for our purposes: the checksum of a key IS the key
Checksum(k) == k

\* ------------------------------------------------------------------ tokens
\* a token handed to a call: <<given?, value>>
TokKinds == {"right", "absent", "random", "bitflip", "other", "stale", "zero"}
Tok(w, kind) ==
  CASE kind = "right"   -> IF w.masked THEN <<TRUE, MaskOf(w.gen)>> ELSE <<FALSE, {}>>
    [] kind = "absent"  -> <<FALSE, {}>>
    [] kind = "random"  -> <<TRUE, {"rnd"}>>
    [] kind = "bitflip" -> <<TRUE, Xor(MaskOf(w.gen), {"bit"})>>      \* the right token, one bit off
    [] kind = "other"   -> <<TRUE, {"otherwallet"}>>                  \* another wallet's token
    [] kind = "stale"   -> <<TRUE, MaskOf(w.gen - 1)>>                \* valid before the last (re)open
    [] kind = "zero"    -> <<TRUE, {}>>                               \* the all-zero key
\* kinds that make sense for the wallet (an unmasked wallet has no token to flip or to go stale)
KindsFor(w) == IF w.masked THEN TokKinds ELSE {"right", "random", "other"}

\* ------------------------------------------------------------------ wallet
\* inst    lc_provider.backend is Some (open_wallet done, close_wallet not)
\* kc      LMDBBackend.keychain: the stored (masked) master key
\* chk     LMDBBackend.master_checksum
\* gen     how many masks this wallet has drawn (the right token is MaskOf(gen))
\* active  LMDBBackend.parent_key_id (volatile)
\* f       Dev_Facts; ver = number of committed batches / side-file writes
\* node    the node answers
\* every wallet state has a second, empty account "acct1" next to "default" (nacct counts the extra
\* accounts): calls can name an existing account other than the active one
Facts0 == [free |-> 0, ctx |-> FALSE, sent |-> FALSE, recv |-> FALSE, inv |-> FALSE, fin |-> FALSE,
           done |-> FALSE, nacct |-> 1]
InitNames == {"fresh", "funded", "pendsend", "pendrecv", "done"}
FactsOf(init) ==
  CASE init = "fresh"    -> Facts0
    [] init = "funded"   -> [Facts0 EXCEPT !.free = 2]
    [] init = "pendsend" -> [Facts0 EXCEPT !.free = 1, !.ctx = TRUE, !.sent = TRUE]
    [] init = "pendrecv" -> [Facts0 EXCEPT !.free = 2, !.recv = TRUE, !.inv = TRUE]
    [] init = "done"     -> [Facts0 EXCEPT !.free = 2, !.fin = TRUE, !.done = TRUE]

\* LMDBBackend::set_keychain (lmdb.rs:184): checksum of the clear key, then XOR with a fresh mask
SetKeychain(w, masked) ==
  LET g == IF masked THEN w.gen + 1 ELSE w.gen IN
  [w EXCEPT !.inst = TRUE, !.masked = masked, !.gen = g,
            !.chk = Checksum(Master),
            !.kc = IF masked THEN Xor(Master, MaskOf(g)) ELSE Master,
            !.active = "default"]
NewWallet(init, masked) ==
  SetKeychain([inst |-> FALSE, masked |-> FALSE, gen |-> 0, kc |-> {}, chk |-> {}, active |-> "default",
               f |-> FactsOf(init), ver |-> 0, node |-> TRUE], masked)
\* DefaultLCProvider::close_wallet (lifecycle/default.rs:252): backend.close(); backend = None
CloseWallet(w) == [w EXCEPT !.inst = FALSE, !.kc = {}]
\* DefaultLCProvider::open_wallet (default.rs:222): a new backend, a new mask
OpenWallet(w, masked) == SetKeychain(w, masked)

\* LMDBBackend::keychain(mask)  lmdb.rs:227-247
Keychain(w, tok) ==
  IF ~w.inst THEN "err:closed"                                            \* KeychainDoesntExist
  ELSE LET k == IF tok[1] THEN Xor(w.kc, tok[2]) ELSE w.kc IN             \* k_masked.mask_master_key(m)
       IF Checksum(k) = w.chk THEN "ok" ELSE "err:mask"                   \* InvalidKeychainMask
\* "the right token" = the one the last open_wallet returned (none for an unmasked wallet)
IsRight(w, tok) == tok = Tok(w, "right")

\* ----------------------------------------------------------------- methods
\* every pub fn of impl Owner (api/src/owner.rs) except new(); variants split a method by the
\* arguments that change which steps it performs
MV == {
  <<"accounts", "">>,
  <<"create_account_path", "new">>, <<"create_account_path", "dup">>,
  <<"set_active_account", "default">>, <<"set_active_account", "unknown">>, <<"set_active_account", "second">>,
  <<"retrieve_outputs", "norefresh">>, <<"retrieve_outputs", "refresh">>,
  <<"retrieve_txs", "norefresh">>, <<"retrieve_txs", "refresh">>,
  <<"retrieve_summary_info", "norefresh">>, <<"retrieve_summary_info", "refresh">>,
  <<"init_send_tx", "plain">>, <<"init_send_tx", "estimate">>, <<"init_send_tx", "late">>,
  <<"init_send_tx", "proof">>, <<"init_send_tx", "toomuch">>,
  <<"init_send_tx", "src">>,                 \* src_acct_name = the existing account that is NOT active
  <<"issue_invoice_tx", "plain">>, <<"issue_invoice_tx", "dest">>,     \* dest_acct_name = the other account
  <<"process_invoice_tx", "plain">>, <<"process_invoice_tx", "src">>,  \* src_acct_name = the other account
  <<"tx_lock_outputs", "ctx">>, <<"finalize_tx", "reply">>, <<"post_tx", "final">>,
  <<"cancel_tx", "byid">>, <<"cancel_tx", "byslate">>,
  <<"get_stored_tx", "byid">>, <<"get_rewind_hash", "">>,
  <<"scan_rewind_hash", "own">>, <<"scan_rewind_hash", "bad">>,
  <<"scan", "plain">>, <<"scan", "del">>, <<"node_height", "">>,
  <<"get_top_level_directory", "">>,
  <<"start_updater", "run">>, <<"stop_updater", "">>, <<"get_updater_messages", "">>,
  <<"get_slatepack_address", "">>, <<"get_slatepack_secret_key", "">>,
  <<"create_slatepack_message", "sender">>, <<"create_slatepack_message", "nosender">>, <<"create_slatepack_message", "enc">>,
  <<"slate_from_slatepack_message", "idx">>, <<"slate_from_slatepack_message", "noidx">>, <<"slate_from_slatepack_message", "enc">>,
  <<"decode_slatepack_message", "idx">>, <<"decode_slatepack_message", "noidx">>, <<"decode_slatepack_message", "enc">>,
  <<"retrieve_payment_proof", "norefresh">>, <<"retrieve_payment_proof", "refresh">>, <<"retrieve_payment_proof", "noid">>,
  <<"verify_payment_proof", "proof">>,
  <<"build_output", "plain">>,
  <<"create_mwixnet_req", "nolock">>, <<"create_mwixnet_req", "lock">> }
\* not exercised as calls (see header): lifecycle methods and set_tor_config
LifecycleMethods == {"set_tor_config", "set_top_level_directory", "create_config", "create_wallet", "open_wallet",
                     "close_wallet", "get_mnemonic", "change_password", "delete_wallet"}
OwnerMethods == {mv[1] : mv \in MV} \cup LifecycleMethods       \* 41 = every pub fn of impl Owner but new()

\* -------- what the PROPERTY says about a call (DESIGN.md Appendix B "Mask") --------
\* "guarded": the call derives keys, signs, builds outputs, reveals secrets or writes wallet
\*            state -> a wrong token must be refused with the invalid-mask error.
\* "checked": the code tests the token "to keep the API consistent" but the call does none of
\*            the above (a listing, a node query) -> not required to fail.
\* "listing": served without the keychain (retrieve_txs / retrieve_summary_info /
\*            retrieve_payment_proof without refresh) -> not required to fail.
\* "nowallet": does not use the wallet backend at all (codec helpers, updater control,
\*            scan_rewind_hash of a THIRD PARTY's hash, get_top_level_directory).
\* "async":   start_updater hands the token to a background thread and returns.
\* A refreshing listing is guarded exactly when the refresh can happen (node reachable): with
\* the node down the code skips the refresh and serves the listing.
RefreshingListing == {<<"retrieve_txs", "refresh">>, <<"retrieve_summary_info", "refresh">>,
                      <<"retrieve_payment_proof", "refresh">>}
ClassOf(m, v, nodeUp) ==
  CASE <<m, v>> \in RefreshingListing -> IF nodeUp THEN "guarded" ELSE "listing"
    [] m \in {"accounts", "get_stored_tx", "node_height", "post_tx"} -> "checked"
    [] <<m, v>> \in {<<"retrieve_txs", "norefresh">>, <<"retrieve_summary_info", "norefresh">>,
                     <<"retrieve_payment_proof", "norefresh">>, <<"retrieve_payment_proof", "noid">>} -> "listing"
    [] m \in {"scan_rewind_hash", "get_top_level_directory", "stop_updater", "get_updater_messages"} -> "nowallet"
    [] <<m, v>> \in {<<"create_slatepack_message", "nosender">>, <<"slate_from_slatepack_message", "noidx">>,
                     <<"decode_slatepack_message", "noidx">>} -> "nowallet"
    [] m = "start_updater" -> "async"
    [] OTHER -> "guarded"
\* which of the five things the property names a guarded call does (documentation + coverage)
Does(m, v) ==
  CASE m \in {"create_account_path", "set_active_account", "tx_lock_outputs", "cancel_tx", "scan"} -> {"writes"}
    [] m \in {"retrieve_txs", "retrieve_summary_info", "retrieve_payment_proof"} -> {"derives", "writes"}
    [] m = "retrieve_outputs" -> IF v = "refresh" THEN {"derives", "writes"} ELSE {"derives"}
    [] m \in {"init_send_tx", "issue_invoice_tx", "process_invoice_tx", "build_output", "create_mwixnet_req"} ->
         {"derives", "builds", "writes"} \cup (IF m = "process_invoice_tx" THEN {"signs"} ELSE {})
    [] m = "finalize_tx" -> {"derives", "signs", "writes"}
    [] m \in {"get_rewind_hash", "get_slatepack_secret_key"} -> {"derives", "reveals"}
    [] m \in {"get_slatepack_address", "create_slatepack_message", "verify_payment_proof"} -> {"derives"}
    [] m \in {"slate_from_slatepack_message", "decode_slatepack_message"} -> {"derives", "reveals"}
    [] OTHER -> {}

\* -------------------------------------------------------------------- steps
Inst       == [k |-> "inst"]                \* w_lock.lc_provider()?.wallet_inst()?   (wallet_lock!)
Kc         == [k |-> "kc"]                  \* w.keychain(keychain_mask)?
Wr(e)      == [k |-> "wr", eff |-> e]       \* w.batch(keychain_mask)? ... batch.commit()?
Vol(a)     == [k |-> "vol", to |-> a]       \* w.set_parent_key_id(..)
Pre(c, e)  == [k |-> "pre", c |-> c, e |-> e]  \* a check that does not involve the keychain
Tip        == [k |-> "tip"]                 \* w.w2n_client().get_chain_tip()?  (or another node call that must succeed)
\* updater::refresh_outputs (updater.rs:382): get_chain_tip()?, map_wallet_outputs -> keychain(mask)?,
\* apply_api_outputs -> batch(mask), commit
RefreshOutputs == <<Tip, Kc, Wr("refresh")>>
\* owner::update_wallet_state (owner.rs:1036) as called by the refreshing retrieves: update_outputs
\* turns every error of refresh_outputs EXCEPT InvalidKeychainMask into "not validated" and the
\* call goes on without refreshing (owner.rs:1272-1279)
Uws        == [k |-> "uws"]
\* cancel_tx: the same, but "not validated" is an error (owner.rs:834-843)
UwsMust    == [k |-> "uwsmust"]
Spawn      == [k |-> "spawn"]               \* start_updater: thread::spawn(updater.run(mask)) ; Ok(())

\* conditions of the Pre steps, over the facts (Dev_Facts) and the variant
Vis(w) == w.active = "default"              \* the roles live in the default account
Cond(w, v, c) ==
  CASE c = "label_fresh" -> v # "dup"
    [] c = "label_known" -> v = "default" \/ (v = "second" /\ w.f.nacct >= 1)
    [] c = "funds"       -> IF v = "src" THEN ~Vis(w) /\ w.f.free >= 1    \* the funds are in "default": the named (other) account has
                            ELSE Vis(w) /\ w.f.free >= 1 /\ v # "toomuch"  \* them only while "acct1" is the active one
    [] c = "ctx"         -> w.f.ctx
    [] c = "coin"        -> w.f.free >= 1
    [] c = "sent"        -> w.f.sent
    [] c = "pending"     -> Vis(w) /\ (w.f.sent \/ w.f.recv)
    [] c = "stored"      -> w.f.sent \/ w.f.fin
    [] c = "proofed"     -> Vis(w) /\ w.f.done
    [] c = "kernel"      -> w.f.done /\ w.node
    [] c = "ids"         -> v # "noid"
    [] c = "hexhash"     -> v # "bad"
    [] c = "owned"       -> Vis(w) /\ w.f.free >= 1
    [] c = "node"        -> w.node
    [] c = "myaddr"      -> Vis(w)

\* the effect of a committed batch on the facts
Effect(w, e) ==
  LET f == w.f IN
  [w EXCEPT !.ver = @ + 1,
            !.f = CASE e = "acct"    -> [f EXCEPT !.nacct = @ + 1]
                    [] e = "ctx"     -> [f EXCEPT !.ctx = TRUE]
                    [] e = "inv"     -> [f EXCEPT !.inv = TRUE]
                    [] e = "lock"    -> [f EXCEPT !.ctx = FALSE, !.sent = TRUE, !.free = @ - 1]
                    [] e = "fin"     -> [f EXCEPT !.sent = FALSE, !.fin = TRUE]
                    [] e = "cancel"  -> IF f.sent THEN [f EXCEPT !.sent = FALSE, !.free = @ + 1]
                                        ELSE [f EXCEPT !.recv = FALSE]
                    [] e = "lockout" -> [f EXCEPT !.free = @ - 1]
                    [] OTHER         -> f]              \* "refresh", "child", "scan", "payctx": content the facts do not track

\* --------------------------------------------------------------- programs
\* Transcription notes give file:line of the pinned commit.
Prog(m, v) ==
  CASE m = "accounts" ->                       \* api owner.rs:253  keychain test, then keys::accounts
         <<Inst, Kc>>
    [] m = "create_account_path" ->            \* keys::new_acct_path: label check (keys.rs:86) BEFORE batch(mask) (keys.rs:112)
         <<Inst, Pre("label_fresh", "err:other:AccountLabelAlreadyExists"), Wr("acct")>>
    [] m = "set_active_account" ->             \* api owner.rs:352  keychain test, then set_parent_key_id_by_name
         <<Inst, Kc, Pre("label_known", "err:other:UnknownAccountLabel"), Vol(IF v = "second" THEN "acct1" ELSE "default")>>
    [] m = "retrieve_outputs" ->               \* owner.rs:275; updater::retrieve_outputs consults the keychain (updater.rs:79)
         (IF v = "refresh" THEN <<Inst, Uws>> ELSE <<>>) \o <<Inst, Kc>>
    [] m \in {"retrieve_txs", "retrieve_summary_info"} ->   \* owner.rs:315 / 355: no keychain after the refresh
         (IF v = "refresh" THEN <<Inst, Uws>> ELSE <<>>) \o <<Inst>>
    [] m = "retrieve_payment_proof" ->         \* owner.rs:385: id check first; refresh; retrieve_txs (refreshes AGAIN, owner.rs:413)
         <<Pre("ids", "err:other:PaymentProofRetrieval")>>
         \o (IF v = "refresh" THEN <<Inst, Uws, Inst, Uws>> ELSE <<>>)
         \o <<Inst, Pre("proofed", "err:other:PaymentProofRetrieval")>>
    [] m = "init_send_tx" ->                   \* owner.rs:481
         <<Inst, Tip>>                                               \* tx::new_tx_slate (tx.rs:60)
         \o (IF v = "estimate"
             THEN <<Tip>> \o RefreshOutputs \o <<Pre("funds", "err:notenough")>>   \* tx::estimate_send_tx (tx.rs:118-137)
             ELSE <<Tip>> \o RefreshOutputs                                         \* owner.rs:535; add_inputs_to_slate / create_late_lock_context refresh first
                  \o (IF v = "late"
                      THEN <<Pre("funds", "err:notenough"), Kc>>                      \* tx.rs:274 select_coins_and_fee, tx.rs:287 keychain
                      ELSE <<Kc, Pre("funds", "err:notenough"), Wr("child")>>)        \* tx.rs:175 build_send_tx(&keychain(mask)?, ..): select, next_child for the change
                  \o (IF v = "proof" THEN <<Kc>> ELSE <<>>)                          \* owner.rs:569
                  \o <<Wr("ctx")>>)                                                  \* owner.rs:586
    [] m = "issue_invoice_tx" ->               \* owner.rs:597: new_tx_slate, tip, add_output_to_slate (keychain, next_child, output+log entry), context
         <<Inst, Tip, Tip, Kc, Wr("child"), Wr("inv"), Wr("inv")>>
    [] m = "process_invoice_tx" ->             \* owner.rs:650: ttl, duplicate check, tip, get_private_context(mask) (error swallowed,
                                               \* owner.rs:703), add_inputs_to_slate -> refresh_outputs
         <<Inst, Tip>> \o RefreshOutputs \o <<Pre("funds", "err:notenough"), Kc, Wr("child"), Kc, Wr("payctx")>>
    [] m = "tx_lock_outputs" ->                \* owner.rs:771: get_private_context = keychain(mask)? THEN the db read (lmdb.rs:346-352)
         <<Inst, Kc, Pre("ctx", "err:backend"), Kc, Tip, Kc, Pre("coin", "err:generic"), Wr("lock")>>
    [] m = "finalize_tx" ->                    \* foreign.rs:136: get_private_context, keychain, complete_tx, update_stored_tx (file + batch), delete context
         <<Inst, Kc, Pre("sent", "err:backend"), Kc, Kc, Wr("fin"), Wr("fin2")>>
    [] m = "post_tx" ->                        \* api owner.rs:1051: keychain test, then client.post_tx
         <<Inst, Kc, Pre("node", "err:node")>>
    [] m = "cancel_tx" ->                      \* owner.rs:822: update_wallet_state must validate; tx::cancel_tx (tx.rs:336)
         <<Inst, UwsMust, Inst, Pre("pending", "err:notfound"), Kc, Wr("cancel")>>
    [] m = "get_stored_tx" ->                  \* api owner.rs:1179: keychain test, then the file read
         <<Inst, Kc, Pre("stored", "err:other:IO")>>
    [] m = "get_rewind_hash" ->                \* owner.rs:88
         <<Inst, Kc>>
    [] m = "scan_rewind_hash" ->               \* owner.rs:918: format check, tip, node scan; no token parameter, no keychain
         <<Pre("hexhash", "err:other:RewindHash"), Inst, Tip>>
    [] m = "scan" ->                           \* owner.rs:959: update_outputs (errors but the mask one ignored), tip, scan::scan (keychain), batch
         <<Inst, Uws, Inst, Tip, Inst, Kc, Wr("scan"), Inst, Wr("scan")>>
    [] m = "node_height" ->                    \* api owner.rs:1383: keychain test; tip, falling back to retrieve_outputs
         <<Inst, Kc, Inst>>
    [] m = "get_top_level_directory" -> <<>>   \* lc_provider only
    [] m = "start_updater" -> <<Spawn>>        \* api owner.rs:1908
    [] m \in {"stop_updater", "get_updater_messages"} -> <<>>
    [] m \in {"get_slatepack_address", "get_slatepack_secret_key"} ->   \* owner.rs:106 / 125
         <<Inst, Kc>>
    [] m = "create_slatepack_message" ->       \* owner.rs:153: the sender address is derived only when sender_index is given
         IF v = "nosender" THEN <<>> ELSE <<Inst, Kc>>
    [] m \in {"slate_from_slatepack_message", "decode_slatepack_message"} ->   \* owner.rs:180 / 231: a key per secret index
         IF v = "noidx" THEN <<>>
         ELSE <<Inst, Kc>> \o                                                 \* the key is derived below the ACTIVE account:
              (IF m = "slate_from_slatepack_message" /\ v = "enc"              \* a message encrypted to the default account's
               THEN <<Pre("myaddr", "err:other:SlatepackDecryption")>>         \* address opens only while that account is active;
               ELSE <<>>)                                                     \* decode_ falls back to the undecrypted view
    [] m = "verify_payment_proof" ->           \* owner.rs:1191: keychain under the lock, then the kernel lookup
         <<Inst, Kc, Pre("kernel", "err:proof")>>
    [] m = "build_output" ->                   \* owner.rs:1339: keychain, next_available_key
         <<Inst, Kc, Wr("child")>>
    [] m = "create_mwixnet_req" ->             \* owner.rs:1378: keychain, retrieve_outputs, lookup, build_output, optional lock batch
         <<Inst, Kc, Kc, Pre("owned", "err:generic"), Kc, Wr("child")>> \o (IF v = "lock" THEN <<Wr("lockout")>> ELSE <<>>)

\* one step: <<status, wallet>>; status "go" = continue
Step(w, v, tok, s) ==
  CASE s.k = "inst" -> IF w.inst THEN <<"go", w>> ELSE <<"err:lifecycle", w>>
    [] s.k = "kc"   -> LET r == Keychain(w, tok) IN <<IF r = "ok" THEN "go" ELSE r, w>>
    [] s.k = "wr"   -> LET r == Keychain(w, tok) IN                 \* batch(mask) takes the keychain BEFORE anything is written (lmdb.rs:421-429)
                       IF r = "ok" THEN <<"go", Effect(w, s.eff)>> ELSE <<r, w>>
    [] s.k = "vol"  -> <<"go", [w EXCEPT !.active = s.to]>>
    [] s.k = "pre"  -> IF Cond(w, v, s.c) THEN <<"go", w>> ELSE <<s.e, w>>
    [] s.k = "tip"  -> IF w.node THEN <<"go", w>> ELSE <<"err:node", w>>
    [] s.k \in {"uws", "uwsmust"} ->
         IF ~w.node THEN <<IF s.k = "uws" THEN "go" ELSE "err:nonode", w>>
         ELSE LET r == Keychain(w, tok) IN
              IF r = "ok" THEN <<"go", Effect(w, "refresh")>> ELSE <<r, w>>
    [] s.k = "spawn" ->                                             \* Dev_Updater: the thread's first update_wallet_state
         IF w.inst /\ w.node /\ Keychain(w, tok) = "ok" THEN <<"go", Effect(w, "refresh")>> ELSE <<"go", w>>

RECURSIVE Run(_, _, _, _, _)
Run(w, v, tok, p, i) ==
  IF i > Len(p) THEN [res |-> "ok", w |-> w]
  ELSE LET r == Step(w, v, tok, p[i]) IN
       IF r[1] = "go" THEN Run(r[2], v, tok, p, i + 1) ELSE [res |-> r[1], w |-> r[2]]

\* the call m/v with token tok on wallet w: result class, wallet after, was anything committed
Exec(w, m, v, tok) ==
  LET r == Run(w, v, tok, Prog(m, v), 1) IN
  [res |-> r.res, w |-> r.w, touched |-> r.w.ver # w.ver, same |-> (r.w.ver = w.ver /\ r.w.active = w.active)]

\* ------------------------------------------------------------ the property
IsErr(res) == res \notin {"ok", "panic", "hang"}
Monitors == <<"MaskSound_Refused", "MaskSound_InvalidMask", "MaskSound_StoreUnchanged",
              "MaskTransparent", "ClosedIsDead">>

\* o  = [res, same]           what the call did on the masked wallet (same: stored + volatile wallet state unchanged)
\* t  = [res, ret, proj]      what the same call with NO token did on the unmasked twin (ret/proj: digests)
\* rr = result class of the same call with the RIGHT token at the same state ("" = not known)
\* (1) a guarded call with a wrong / missing token does not succeed (and does not crash)
MaskSound_Refused(cls, wrong, o) == (cls = "guarded" /\ wrong) => IsErr(o.res)
\* (2) ... and the refusal is the invalid-mask error whenever the call is otherwise acceptable
\*     (a call that the right token could not make succeed either may be refused for that reason)
MaskSound_InvalidMask(cls, wrong, o, rr) == (cls = "guarded" /\ wrong /\ rr = "ok") => o.res = "err:mask"
\* (3) whatever the class, a call with a wrong / missing token leaves the wallet's state unchanged:
\*     every wallet file, every section of the projected store, AND what the open wallet holds in memory
\*     and an owner with the right token can observe afterwards - the active account (parent_key_id),
\*     the account list, the address of the active account, the keychain the right token unlocks
MaskSound_StoreUnchanged(wrong, o) == wrong => o.same
\* (4) with the right token the masked wallet does what the unmasked twin does
MaskTransparent(o, t) == o.res = t.res /\ o.ret = t.ret /\ o.proj = t.proj /\ o.same = t.same
\* (5) after close_wallet nothing that uses the wallet succeeds or writes, whatever the token
ClosedIsDead(cls, closed, o) == (closed /\ cls # "nowallet") => (IsErr(o.res) \/ cls = "async") /\ o.same
=============================================================================
