CONSTANTS
  CheckM = FALSE
SPECIFICATION TSpec
POSTCONDITION Consumed
CHECK_DEADLOCK FALSE
