CONSTANTS
  Mode = "dev2"
  NSample = 0
  Wide = FALSE
SPECIFICATION Spec
INVARIANTS WitnessNRD WitnessEncrypted
CHECK_DEADLOCK FALSE
