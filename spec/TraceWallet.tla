---------------------------- MODULE TraceWallet ----------------------------
(***************************************************************************)
(* Trace validation of executions of the REAL wallet code (recorded by     *)
(* harness/replay_wallet) against Wallet.tla.                              *)
(*                                                                         *)
(* Every line of the trace is one API call with its arguments, its result  *)
(* class and the projected abstract state after it.  The trace spec always *)
(* moves to the OBSERVED state, and on every step evaluates                *)
(*   Layer P: the property monitors of WalletProps on the observed states  *)
(*            (a failure prints a VIOL line), and                          *)
(*   Layer M: refinement - the observed step must be the step the named    *)
(*            Wallet.tla operator takes with the logged arguments (a       *)
(*            mismatch prints a NONCONF line).                             *)
(* Because the spec never stops at a failure the whole trace is examined.  *)
(* History variables are maintained exactly as in MCWallet.tla.            *)
(***************************************************************************)
EXTENDS WalletProps, Json, IOUtils, TLCExt, SequencesExt

CONSTANT CheckM     \* TRUE: evaluate Layer M as well as Layer P

VARIABLES l, st, hv, aux
tvars == <<l, st, hv, aux>>

Rec == ndJsonDeserialize(IOEnv.TRACE)

Has(r, f) == f \in DOMAIN r

\* ----------------------------------------------------- observation -> model
ObsOut(j) == [v |-> j.v, st |-> j.st, h |-> j.h, lk |-> j.lk, cb |-> j.cb, tx |-> j.tx, acct |-> j.acct,
              pa |-> j.pa, m |-> j.m]
ObsTx(j) == [acct |-> j.acct, id |-> j.id, ty |-> j.ty, conf |-> j.conf, cr |-> j.cr, db |-> j.db,
             fee |-> j.fee, slate |-> j.slate, ttl |-> j.ttl, kern |-> j.kern, minh |-> j.minh,
             nin |-> j.nin, nout |-> j.nout, proof |-> j.proof]
ObsCtx(j) == [acct |-> j.acct, ins |-> ToSet(j.ins),
              outs |-> [i \in DOMAIN j.outs |-> [k |-> j.outs[i].k, v |-> j.outs[i].v]],
              amt |-> j.amt, fee |-> j.fee,
              late |-> [on |-> j.late.on, minconf |-> j.late.minconf, maxouts |-> j.late.maxouts,
                        nchange |-> j.late.nchange, useall |-> j.late.useall],
              pidx |-> j.pidx, calc |-> j.calc]
ObsWallet(j) ==
  [ seed   |-> j.seed,
    outs   |-> [k \in DOMAIN j.outs |-> ObsOut(j.outs[k])],
    txs    |-> [t \in DOMAIN j.txs |-> ObsTx(j.txs[t])],
    ctxs   |-> [c \in DOMAIN j.ctxs |-> ObsCtx(j.ctxs[c])],
    idx    |-> [a \in DOMAIN j.idx |-> [child |-> j.idx[a].child, log |-> j.idx[a].log, confh |-> j.idx[a].confh]],
    files  |-> [f \in DOMAIN j.files |-> j.files[f]],
    active |-> j.active,
    labels |-> [a \in {j.idx[x].label : x \in DOMAIN j.idx} |-> CHOOSE x \in DOMAIN j.idx : j.idx[x].label = a],
    scanned |-> j.scanned ]
Readable(j) == Has(j, "outs")
ObsWorld(o) ==
  [ w     |-> [n \in DOMAIN o.w |-> IF Readable(o.w[n]) THEN ObsWallet(o.w[n]) ELSE EmptyWallet({"a0"})],
    chain |-> [i \in DOMAIN o.chain |-> [cb |-> o.chain[i].cb, txs |-> ToSet(o.chain[i].txs)]],
    pool  |-> ToSet(o.pool),
    body  |-> [b \in DOMAIN o.body |-> [ins |-> ToSet(o.body[b].ins), outs |-> ToSet(o.body[b].outs),
                                        fee |-> o.body[b].fee, kern |-> o.body[b].kern]],
    nrep  |-> [r \in DOMAIN o.nrep |-> o.nrep[r]],
    reg   |-> [r \in DOMAIN o.reg |-> [seed |-> o.reg[r].seed, key |-> o.reg[r].key, pa |-> o.reg[r].pa,
                                       n |-> o.reg[r].n, v |-> o.reg[r].v, cb |-> o.reg[r].cb]] ]

\* ------------------------------------------------------------ reporting
Viol(p, m, e, info) ==
  PrintT(<<"VIOL", ToJson([p |-> p, m |-> m, line |-> l, b |-> e.b, ev |-> e.ev, info |-> info])>>)
NonConf(e, what) ==
  PrintT(<<"NONCONF", ToJson([line |-> l, b |-> e.b, ev |-> e.ev, what |-> what])>>)
\* explain a state mismatch: which parts of which wallet differ (expected vs observed)
DiffF(f, g) == {k \in (DOMAIN f) \cup (DOMAIN g) : k \notin DOMAIN f \/ k \notin DOMAIN g \/ f[k] # g[k]}
DiffWorld(x, o) ==
  [ w |-> [n \in {m \in DOMAIN o.w : m \notin DOMAIN x.w \/ x.w[m] # o.w[m]} |->
             IF n \notin DOMAIN x.w THEN <<"missing">> ELSE
             [f \in {g \in DOMAIN o.w[n] : x.w[n][g] # o.w[n][g]} |->
                IF f \in {"outs", "txs", "ctxs", "idx", "files"}
                THEN [k \in DiffF(x.w[n][f], o.w[n][f]) |->
                        [exp |-> IF k \in DOMAIN x.w[n][f] THEN x.w[n][f][k] ELSE "absent",
                         obs |-> IF k \in DOMAIN o.w[n][f] THEN o.w[n][f][k] ELSE "absent"]]
                ELSE [exp |-> x.w[n][f], obs |-> o.w[n][f]]]],
    chain |-> x.chain = o.chain, pool |-> x.pool = o.pool, body |-> x.body = o.body, nrep |-> x.nrep = o.nrep,
    reg |-> [k \in DiffF(x.reg, o.reg) |-> [exp |-> IF k \in DOMAIN x.reg THEN x.reg[k] ELSE "absent", obs |-> IF k \in DOMAIN o.reg THEN o.reg[k] ELSE "absent"]] ]
\* Named havoc (DESIGN 2.2): the order in which one refresh/scan batch numbers several
\* new log entries follows a HashMap / commitment order the model does not predict.
\* Norm erases exactly that: log ids (entries become a set, output links name the entry's
\* content instead of its id).
NormW(wr) ==
  LET ent(a, id) == IF TxKeyOf(a, id) \in DOMAIN wr.txs
                    THEN [wr.txs[TxKeyOf(a, id)] EXCEPT !.id = 0] ELSE [none |-> id] IN
  [wr EXCEPT !.txs = {[wr.txs[t] EXCEPT !.id = 0] : t \in DOMAIN wr.txs},
             !.outs = [k \in DOMAIN wr.outs |->
                         [o |-> [wr.outs[k] EXCEPT !.tx = 0],
                          e |-> IF wr.outs[k].tx = NoTx THEN [none |-> -1] ELSE ent(wr.outs[k].acct, wr.outs[k].tx)]]]
NormWorld(x) == [x EXCEPT !.w = [n \in DOMAIN x.w |-> NormW(x.w[n])]]
\* MatchState(x, e, what): x = observed next state, else print the difference
MatchState(x, e, what) ==
  IF ~CheckM THEN TRUE ELSE IF x = ObsWorld(Rec[l].obs) THEN TRUE
  ELSE IF NormWorld(x) = NormWorld(ObsWorld(Rec[l].obs))
       THEN PrintT(<<"HAVOC", ToJson([line |-> l, b |-> e.b, ev |-> e.ev, what |-> "log-id order"])>>)
  ELSE PrintT(<<"NONCONF", ToJson([line |-> l, b |-> e.b, ev |-> e.ev, what |-> what, diff |-> DiffWorld(x, ObsWorld(Rec[l].obs))])>>)

\* Check(c, p, m, e, info): TRUE always; prints when the monitor c fails
Check(c, p, m, e, info) == IF c THEN TRUE ELSE Viol(p, m, e, info)
CheckMatch(c, e, what) == IF ~CheckM THEN TRUE ELSE IF c THEN TRUE ELSE NonConf(e, what)

Ok(e) == e.res = "ok"
ErrClass(e) == IF Ok(e) THEN "ok" ELSE e.res

\* ------------------------------------------------------------- monitors
\* evaluated on EVERY step, whatever the event (state invariants)
StateMonitors(e, s2, hv2) ==
  /\ Check(ExclusiveReservation(s2, hv2), "C03", "ExclusiveReservation", e, "")
  /\ Check(OneLiveEntryPerSlate(s2), "C03", "OneLiveEntryPerSlate", e, "")
  /\ Check(\A w \in Wallets(s2) \ aux.dirty : ReservationHeld(s2, hv2, w), "C03", "ReservationHeld", e, "")
  /\ Check(NoRevertedSelected(st, s2, e.ev = "finalize"), "C18", "NeverSelectsReverted", e, "")
  /\ Check(\A w \in DOMAIN s2.w : \A k \in DOMAIN s2.w[w].outs : s2.w[w].outs[k].v >= 0, "C01", "NonNegative", e, "")
\* C04: one account's operations never spend or reserve another account's outputs - a step that acts for account `a`
\* (the source account of a send, the account of the transaction's context, the active account of a cancel) leaves
\* the status of every output of the wallet's OTHER accounts alone (a refresh embedded in the step concerns `a` or the
\* active account only)
ActsFor(e, s) ==
  LET w == e.w IN
  IF e.ev = "init_send" \/ e.ev = "process_invoice"
  THEN AcctOf(s, w, IF Has(e, "args") /\ Has(e.args, "src") THEN e.args.src ELSE "")
  ELSE IF Has(e, "sl") /\ e.sl \in DOMAIN s.w[w].ctxs THEN s.w[w].ctxs[e.sl].acct
  ELSE s.w[w].active
AccountIsolation(e, s, s2) ==
  LET w == e.w  a == ActsFor(e, s) IN
  Check(\A k \in DOMAIN s.w[w].outs :
           (s.w[w].outs[k].acct # a /\ s.w[w].outs[k].acct # s.w[w].active)
              => (k \in DOMAIN s2.w[w].outs /\ s2.w[w].outs[k].st = s.w[w].outs[k].st),
        "C04", "AccountIsolation", e, "")
\* code under test must never panic in these operations
NoPanic(e) == Check(e.res # "panic", "C06", "NoPanic", e, IF Has(e, "detail") THEN e.detail ELSE "")

\* C15: the keys a step hands out for NEW outputs, read off what the step recorded - also when the record it wrote
\* replaced an existing one under the same key (an overwritten record is no new key, but it is a re-used path):
\*  - the change keys planned by a context the step created,
\*  - the outputs linked to a log entry the step created and still awaited (Unconfirmed)
NewCtxKeys(s, s2, w, sl) ==
  IF sl \in DOMAIN s2.w[w].ctxs /\ sl \notin DOMAIN s.w[w].ctxs
  THEN {s2.w[w].ctxs[sl].outs[i].k : i \in DOMAIN s2.w[w].ctxs[sl].outs} ELSE {}
NewEntryOutKeys(s, s2, w) ==
  {k \in DOMAIN s2.w[w].outs :
     /\ s2.w[w].outs[k].st = "Unconfirmed"
     /\ \E t \in (DOMAIN s2.w[w].txs) \ (DOMAIN s.w[w].txs) :
           s2.w[w].outs[k].tx = s2.w[w].txs[t].id /\ s2.w[w].outs[k].acct = s2.w[w].txs[t].acct}
KeysFresh(K, w, e, what) == Check(\A k \in K : PathFresh(hv, w, k), "C15", "PathsUnique", e, what)

\* ------------------------------------------------------------- the events
\* a step the harness could not execute at all (res = "skip": e.g. the message it needs was never
\* produced on the real code) carries no observation of the operation: it is consumed by TSkipped
Skipped == l <= Len(Rec) /\ "res" \in DOMAIN Rec[l] /\ Rec[l].res = "skip"
IsEv(n) == l <= Len(Rec) /\ Rec[l].ev = n /\ ~Skipped
E == Rec[l]
S2 == ObsWorld(Rec[l].obs)          \* the observed next state
\* a wallet is "dirty" (C04 does not apply until a scan repairs it) once it holds a
\* cancelled entry whose transaction was, or later is, broadcast or mined
DirtyNow(s) == {w \in DOMAIN s.w : \E t \in DOMAIN s.w[w].txs :
                   /\ s.w[w].txs[t].ty \in {"TxSentCancelled", "TxReceivedCancelled"}
                   /\ s.w[w].txs[t].slate \in (s.pool \cup Mined(s)) \cap DOMAIN s.body}
\* ... or once a transaction is broadcast that spends an output the wallet holds but never reserved
\* (the caller skipped tx_lock_outputs after process_invoice_tx, or posts a slate whose reservation
\* was released): the wallet cannot learn of that spend by refreshing - a scan repairs it.
\* Judged at the moment of the broadcast only, never on later states.
\* (reserved FOR THAT transaction: an input that is Locked by another pending transaction of the wallet - the
\*  invoice was paid from outputs a send had reserved, and tx_lock_outputs was never called for the payment - is
\*  as little known to the wallet as an unreserved one)
ReservedFor(s, w, k, sl) ==
  LET o == s.w[w].outs[k]  t == TxKeyOf(o.acct, o.tx) IN
  \/ o.st = "Spent"
  \/ o.st = "Locked" /\ t \in DOMAIN s.w[w].txs /\ s.w[w].txs[t].slate = sl
UnreservedSpend(s, sl) == {w \in DOMAIN s.w : \E k \in DOMAIN s.w[w].outs :
                            /\ OID(s, w, k) \in s.body[sl].ins
                            /\ ~ReservedFor(s, w, k, sl)}
PostDirty(s) == IF E.ev = "post" /\ E.res = "ok" /\ E.sl \in DOMAIN s.body THEN UnreservedSpend(s, E.sl) ELSE {}
Step(hv2) == /\ l' = l + 1 /\ st' = S2 /\ hv' = HvIssued(hv2, S2)
             /\ StateMonitors(E, S2, hv2) /\ NoPanic(E)
             /\ aux' = [aux EXCEPT !.dirty = IF E.ev = "scan" /\ E.res = "ok" THEN (@ \ {E.w}) ELSE @ \cup DirtyNow(S2) \cup PostDirty(S2),
                                   !.pre = st, !.hvpre = hv, !.ope = E,
                                   \* a restored wallet is "fresh" until its first successful scan / refresh
                                   !.fresh = IF E.ev \in {"scan", "refresh"} /\ E.res = "ok" THEN @ \ {E.w} ELSE @]

TReset == /\ IsEv("reset")
          /\ l' = l + 1 /\ st' = S2 /\ hv' = HvIssued(EmptyHist(DOMAIN S2.w), S2)
          /\ aux' = [nodeUp |-> TRUE, dirty |-> {}, pre |-> S2, hvpre |-> EmptyHist(DOMAIN S2.w), ope |-> E, fresh |-> {}, mustRevert |-> {}]

\* ---- init_send --------------------------------------------------------
InitArgs(e, post) ==
  LET a == e.args
      opt(f, d) == IF Has(a, f) THEN a[f] ELSE d
      cx == IF e.sl \in DOMAIN post.w[e.w].ctxs THEN post.w[e.w].ctxs[e.sl]
            ELSE [ins |-> {}, outs |-> <<>>, fee |-> 0, acct |-> "a0"] IN
  [sl |-> e.sl, src |-> opt("src", ""), amt |-> opt("amt", 0), sel |-> cx.ins,
   chg |-> [i \in DOMAIN cx.outs |-> cx.outs[i].v], fee |-> cx.fee,
   late |-> opt("late", FALSE), incfee |-> opt("incfee", FALSE),
   ttl |-> IF Has(e, "ret") THEN e.ret.ttl ELSE 0, proof |-> e.hasproof,
   minconf |-> opt("minconf", 1), maxouts |-> opt("maxouts", 500), nchange |-> opt("nchange", 1),
   useall |-> opt("useall", FALSE)]
\* C01 on the observed context: conservation, eligibility, minimum fee
SendContract(e, pre, post) ==
  LET w == e.w
      a == InitArgs(e, post)
      cx == post.w[w].ctxs[e.sl]
      r1 == Refresh1(pre, w, cx.acct, FALSE)     \* selection runs on refreshed outputs
      insum == SumF([k \in cx.ins |-> IF k \in DOMAIN r1.w[w].outs THEN r1.w[w].outs[k].v ELSE 0], cx.ins)
      chsum == SumF([i \in DOMAIN cx.outs |-> cx.outs[i].v], DOMAIN cx.outs)
      H == Len(post.chain) IN
  IF cx.late.on THEN TRUE ELSE
  /\ Check(\A k \in cx.ins : k \in DOMAIN r1.w[w].outs /\ r1.w[w].outs[k].acct = cx.acct
                               /\ Eligible(r1.w[w].outs[k], H, a.minconf),
           "C01", "InputsEligible", e, "")
  /\ Check(IF a.incfee THEN insum = a.amt + chsum /\ cx.amt = a.amt - cx.fee
           ELSE insum = cx.amt + cx.fee + chsum /\ cx.amt = a.amt,
           "C01", "Conservation", e, "")
  /\ Check(cx.fee >= Fee(Cardinality(cx.ins), Len(cx.outs) + 1, 1), "C01", "MinFee", e, "")
TInitSend ==
  /\ IsEv("init_send")
  /\ LET e == E  w == e.w  a == InitArgs(e, S2) IN
     /\ IF Ok(e)
        THEN /\ SendContract(e, st, S2)
             /\ KeysFresh(NewCtxKeys(st, S2, w, e.sl), w, e, "init_send:planned")
             /\ Check(SelectAvoidsReserved(st, S2, w, e.sl), "C03", "SelectAvoidsReserved", e, "")
             /\ MatchState(LastOf(InitSend(st, w, a).steps), e, "InitSend")
        ELSE \* an error persists nothing that reserves funds
             /\ Check(/\ DOMAIN S2.w[w].ctxs = DOMAIN st.w[w].ctxs
                      /\ LockedKeys(S2, w) \subseteq LockedKeys(st, w)
                      /\ DOMAIN S2.w[w].txs \subseteq DOMAIN Refresh1(st, w, AcctOf(st, w, a.src), FALSE).w[w].txs,
                      "C01", "ErrPersistsNothing", e, "")
             /\ MatchState(LET nb == S2.w[w].idx[S2.w[w].active].child - st.w[w].idx[st.w[w].active].child IN
                           LastOf(InitSendErr(st, w, a, nb).steps), e, "InitSendErr")
     /\ AccountIsolation(E, st, S2)
     /\ Step(hv)

\* ---- lock -------------------------------------------------------------
TLock ==
  /\ IsEv("lock")
  /\ LET e == E  w == e.w
         a == [sl |-> e.sl, stage |-> e.stage, ttl |-> e.ttl, hasproof |-> e.hasproof]
         hasctx == e.sl \in DOMAIN st.w[w].ctxs
         cx == st.w[w].ctxs[e.sl]
         hv2 == IF Ok(e) /\ hasctx THEN HvAfterLock(st, S2, hv, w, e.sl) ELSE hv
         r == Lock(st, w, a) IN
     /\ Check(ReplayNoEffect(st, S2, hv, w, "lock", e.sl, e.res), "C03", "ReplayNoEffect", e, "lock")
     /\ (~Ok(e)) => Check(S2.w[w] = st.w[w], "C03", "FailedLockUnchanged", e, "")
     /\ CheckMatch((r.res = "ok") = Ok(e), e, "Lock:res:" \o r.res)
     /\ MatchState(LastOr(r.steps, st), e, "Lock")
     /\ AccountIsolation(E, st, S2)
     /\ Step(hv2)

\* ---- receive ----------------------------------------------------------
TReceive ==
  /\ IsEv("receive")
  /\ LET e == E  w == e.w
         a == [sl |-> e.sl, dest |-> e.dest, amt |-> e.amt, ttl |-> e.ttl, hasproof |-> e.hasproof, kernin |-> e.kernin]
         bad == Has(e, "tamper") /\ e.tamper = "feat1"   \* a request that cannot be served: refused without effect
         \* (the key index is taken before the kernel is built: the gap it leaves is legal residue)
         \* named havoc: whether the refusal comes before or after the key index is taken depends on the reason
         r == IF bad THEN [steps |-> IF S2.w[w].idx = st.w[w].idx THEN <<>> ELSE <<BumpChild(st, w)>>, res |-> "bad", key |-> "", rep |-> 0]
              ELSE Receive(st, w, a)
         acct == AcctOf(st, w, e.dest)
         hv2 == IF Ok(e) THEN HvAfterReceive(st, S2, hv, w, e.sl) ELSE hv IN
     /\ Check(ReplayNoEffectA(st, S2, hv, w, "receive", e.sl, e.res, acct), "C03", "ReplayNoEffect", e, "receive")
     /\ Check(ForeignOnlyAdds(st, S2, w, ""), "C07", "ForeignOnlyAdds", e, "receive")
     \* a foreign request never changes which account the wallet acts on (in-memory state the owner sees)
     /\ Check(S2.w[w].active = st.w[w].active, "C07", "ForeignKeepsActiveAccount", e, "receive")
     /\ bad => Check(~Ok(e), "C07", "UnservableRefused", e, "")
     \* a second delivery of a slate to an account that holds a (not cancelled) receive entry for it
     \* is refused without effect - however long ago the first one was, confirmed or not
     /\ (\E t \in TxBySlate(st, w, e.sl, {acct}) : st.w[w].txs[t].ty = "TxReceived") =>
          Check(~Ok(e) /\ S2.w[w] = st.w[w], "C07", "SecondDeliveryRefused", e, "")
     /\ Ok(e) => /\ Check(ReceiveExactlyOnce(st, S2, w, e.sl, e.amt, acct), "C07", "ReceiveExactlyOnce", e, "")
                 /\ Check(e.ret.own_only, "C07", "ReplyOwnDataOnly", e, "")
                 /\ Check(\A k \in (DOMAIN S2.w[w].outs) \ (DOMAIN st.w[w].outs) : PathFresh(hv, w, k),
                          "C15", "PathsUnique", e, "receive")
                 /\ KeysFresh(NewEntryOutKeys(st, S2, w), w, e, "receive:recorded")
     /\ (MustRefuseTtl(st, w, e.ttl)) => Check(~Ok(e) /\ S2.w[w] = st.w[w], "C17", "ExpiredRefused", e, "receive")
     /\ (MustNotRefuseTtl(st, w, e.ttl)) => Check(e.res # "err:expired", "C17", "NotExpiredUntouched", e, "receive")
     /\ CheckMatch((r.res = "ok") = Ok(e), e, "Receive:res:" \o r.res)
     /\ MatchState(LastOr(r.steps, st), e, "Receive")
     /\ Step(hv2)

\* ---- finalize ---------------------------------------------------------
\* exactness of the produced transaction w.r.t. the sender's context (C02)
FinalExact(e, pre, post) ==
  LET w == e.w
      cx == pre.w[w].ctxs[e.sl]
      cx2 == IF cx.late.on /\ e.sl \in DOMAIN post.w[w].ctxs THEN post.w[w].ctxs[e.sl] ELSE cx
      b == post.body[e.sl]
      seed == w IN
  /\ Check(e.ret.valid, "C02", "TxValid", e, "")
  /\ Check(e.ret.stored_equal, "C02", "StoredEqualsReturned", e, "")
  /\ Check(e.sl \in DOMAIN post.w[w].files /\ post.w[w].files[e.sl] = "final", "C02", "StoredFinal", e, "")
  /\ (~cx.late.on) =>
       /\ Check(b.ins = {OID(post, w, k) : k \in cx.ins}, "C02", "SpendsReservedInputs", e, "")
       /\ Check({OID(post, w, cx.outs[i].k) : i \in DOMAIN cx.outs} \subseteq b.outs
                /\ Cardinality(b.outs) = Len(cx.outs) + 1, "C02", "ReturnsRecordedChange", e, "")
       /\ Check(b.fee = cx.fee, "C02", "AgreedFee", e, "")
\* arguments of the model's Finalize bound from the log: the algebraic verdicts
\* (valid, proofok) from the result class, the counter-party's outputs from the
\* produced transaction, a late selection from the records the step reserved
FinalizeArgs(e, pre, post) ==
  LET w == e.w
      cx == pre.w[w].ctxs[e.sl]
      newSent == NewSent(pre, post, w, e.sl)
      nid == IF newSent = {} THEN -2 ELSE post.w[w].txs[CHOOSE t \in newSent : TRUE].id
      lsel == {k \in DOMAIN post.w[w].outs : post.w[w].outs[k].st = "Locked" /\ post.w[w].outs[k].tx = nid
                                              /\ k \in DOMAIN pre.w[w].outs /\ pre.w[w].outs[k].st # "Locked"}
      nk == post.w[w].idx[post.w[w].active].child - pre.w[w].idx[pre.w[w].active].child
      lkeys == ChildKeys(pre, w, nk)
      lchg == [i \in 1..nk |-> IF lkeys[i] \in DOMAIN post.w[w].outs THEN post.w[w].outs[lkeys[i]].v
                               ELSE IF e.sl \in DOMAIN post.w[w].ctxs /\ i \in DOMAIN post.w[w].ctxs[e.sl].outs
                                    THEN post.w[w].ctxs[e.sl].outs[i].v ELSE 0]
      own == IF e.sl \in DOMAIN post.body
             THEN {o \in post.body[e.sl].outs : o \in DOMAIN post.reg /\ post.reg[o].seed = post.w[w].seed
                                                  /\ post.reg[o].key \in ({cx.outs[i].k : i \in DOMAIN cx.outs} \cup RangeOf(lkeys))}
             ELSE {} IN
  [sl |-> e.sl, stage |-> e.stage, rep |-> e.rep, ttl |-> e.ttl,
   rkern |-> IF Has(e, "tamper") /\ e.tamper \in {"bogus", "bogus_expired"} THEN "part" ELSE "rpart",
   valid |-> (Ok(e) \/ e.res \in {"err:proof", "err:notfound"}),
   proofok |-> e.res # "err:proof", hasproof |-> e.hasproof,
   rout |-> IF e.sl \in DOMAIN post.body THEN post.body[e.sl].outs \ own ELSE {},
   rins |-> IF e.sl \in DOMAIN post.body THEN post.body[e.sl].ins ELSE {},
   rfee |-> IF e.sl \in DOMAIN post.body THEN post.body[e.sl].fee ELSE 0,
   lsel |-> IF e.sl \in DOMAIN post.w[w].ctxs /\ ~post.w[w].ctxs[e.sl].late.on /\ cx.late.on
            THEN post.w[w].ctxs[e.sl].ins ELSE lsel,
   lchg |-> lchg]
TFinalize ==
  /\ IsEv("finalize")
  /\ LET e == E  w == e.w
         hasctx == e.sl \in DOMAIN st.w[w].ctxs
         hv2 == IF hasctx THEN HvAfterFinalize(st, S2, hv, w, e.sl, Ok(e)) ELSE hv IN
     /\ Check(ReplayNoEffect(st, S2, hv, w, "finalize", e.sl, e.res), "C03", "ReplayNoEffect", e, "finalize")
     /\ (Ok(e) /\ hasctx /\ e.stage = "S2") => FinalExact(e, st, S2)
     /\ (Ok(e) /\ hasctx /\ e.stage = "S2") =>
          Check(FinalizeOwnReservation(S2, w, e.sl), "C03", "FinalizeOwnReservation", e, "")
     /\ (hasctx /\ MustRefuseTtl(st, w, e.ttl)) => Check(~Ok(e) /\ S2.w[w] = st.w[w], "C17", "ExpiredRefused", e, "finalize")
     /\ (MustNotRefuseTtl(st, w, e.ttl)) => Check(e.res # "err:expired", "C17", "NotExpiredUntouched", e, "finalize")
     /\ (e.foreign /\ ~Ok(e)) => Check(ForeignOnlyAdds(st, S2, w, ""), "C07", "ForeignOnlyAdds", e,
                                       \* what kind of pending transaction, what kind of request
                                       (IF hasctx THEN (IF st.w[w].ctxs[e.sl].late.on THEN "late" ELSE "locked") ELSE "noctx")
                                       \o ":" \o (IF Has(e, "tamper") THEN e.tamper ELSE "reply"))
     /\ IF hasctx
        THEN LET r == Finalize(st, w, FinalizeArgs(e, st, S2)) IN
             /\ CheckMatch((r.res = "ok") = Ok(e), e, "Finalize:res:" \o r.res)
             /\ MatchState(LastOr(r.steps, st), e, "Finalize")
        ELSE /\ CheckMatch(~Ok(e), e, "Finalize:noctx")
             /\ MatchState(st, e, "Finalize:noctx")
     /\ AccountIsolation(E, st, S2)
     /\ Step(hv2)

\* ---- cancel -----------------------------------------------------------
\* the driver runs an explicit refresh right before every cancel, so `st` is the
\* state the cancel batch starts from (the refresh inside owner::cancel_tx finds
\* nothing left to do) and the rollback is judged on observed states only
\* a RAW cancel (no refresh of the driver's before it): owner::cancel_tx refreshes first, so an entry whose transaction
\* the chain has confirmed by then - its output is in the REAL chain's unspent set - is a confirmed one and the cancel must be
\* refused; judged against the chain, not against the model
ChainConfirmed(s, w, t, utxo) ==
  LET e == s.w[w].txs[t] IN
  \E k \in DOMAIN s.w[w].outs : /\ s.w[w].outs[k].tx = e.id /\ s.w[w].outs[k].acct = e.acct
                                 /\ s.w[w].outs[k].st \in {"Unconfirmed", "Unspent"} /\ ~s.w[w].outs[k].cb
                                 /\ OID(s, w, k) \in utxo
IsRaw(e) == Has(e, "raw") /\ e.raw
TCancelRaw ==
  /\ IsEv("cancel") /\ IsRaw(E)
  /\ LET e == E  w == e.w
         a == [id |-> e.id, sl |-> e.sl]
         m == CancelMatches(st, w, a)
         utxo == ToSet(Rec[l].obs.utxo) IN
     /\ (Ok(e) /\ Cardinality(m) = 1 /\ w \notin aux.dirty) =>
           Check(~ChainConfirmed(st, w, CHOOSE x \in m : TRUE, utxo), "C05", "CancelRefused", e, "cancelled a transaction the chain had confirmed")
     \* "affects no other transaction", in a form that holds whatever the wallet's own refresh inside the call finds: what is
     \* reserved for ANOTHER entry stays reserved (or is spent on the chain), what ANOTHER entry awaits is not removed
     \* (not judged when another outstanding entry carries a TTL: the refresh inside the call may expire that one)
     /\ (Ok(e) /\ Cardinality(m) = 1 /\ w \notin aux.dirty
         /\ \A u \in DOMAIN st.w[w].txs : st.w[w].txs[u].ttl = 0) =>
           LET t == CHOOSE x \in m : TRUE
               en == st.w[w].txs[t] IN
           Check(\A k \in DOMAIN st.w[w].outs :
                    (~(st.w[w].outs[k].tx = en.id /\ st.w[w].outs[k].acct = en.acct)) =>
                       /\ (st.w[w].outs[k].st = "Locked") => (k \in DOMAIN S2.w[w].outs /\ S2.w[w].outs[k].st \in {"Locked", "Spent"})
                       /\ (st.w[w].outs[k].st = "Unconfirmed") => (k \in DOMAIN S2.w[w].outs),
                 "C05", "CancelIsRollback", e, "raw: another transaction's outputs")
     /\ (~Ok(e) /\ e.res \in {"err:notfound"}) => Check(S2.w[w].ctxs = st.w[w].ctxs, "C05", "CancelRefusedUnchanged", e, "raw")
     /\ IF ~CheckM THEN TRUE
        ELSE LET r == Cancel(st, w, a, aux.nodeUp) IN
             /\ CheckMatch((r.res = "ok") = Ok(e), e, "Cancel:res:" \o r.res)
             /\ MatchState(LastOr(r.steps, st), e, "Cancel")
     /\ AccountIsolation(E, st, S2)
     /\ Step(hv)
TCancel ==
  /\ IsEv("cancel") /\ ~IsRaw(E)
  /\ LET e == E  w == e.w
         a == [id |-> e.id, sl |-> e.sl]
         m == CancelMatches(st, w, a) IN
     /\ IF Ok(e)
        THEN /\ Check(Cardinality(m) = 1, "C05", "CancelTargetUnique", e, "")
             /\ (Cardinality(m) = 1) =>
                  LET t == CHOOSE x \in m : TRUE IN
                  /\ Check(CancelIsRollback(st, S2, w, t), "C05", "CancelIsRollback", e, "")
                  /\ Check(~st.w[w].txs[t].conf /\ st.w[w].txs[t].ty \in {"TxSent", "TxReceived", "TxReverted"},
                           "C05", "CancelRefused", e, "cancelled a non-cancellable entry")
        ELSE \* refused: nothing changes
             (e.res \in {"err:notfound", "err:notcancellable"}) =>
                   Check(S2.w[w] = st.w[w], "C05", "CancelRefusedUnchanged", e, "")
     /\ IF ~CheckM THEN TRUE
        ELSE LET r == Cancel(st, w, a, aux.nodeUp) IN
             /\ CheckMatch((r.res = "ok") = Ok(e), e, "Cancel:res:" \o r.res)
             /\ MatchState(LastOr(r.steps, st), e, "Cancel")
     /\ AccountIsolation(E, st, S2)
     /\ Step(hv)

\* ---- post / mine / node ----------------------------------------------------
TPost == /\ IsEv("post")
         /\ CheckMatch(Ok(E) => Post(st, E.sl) = S2, E, "Post")
         /\ Step(hv)
TMine ==
  /\ IsEv("mine")
  /\ LET e == E IN
     /\ CheckMatch(Ok(e) => (Len(S2.chain) = Len(st.chain) + 1 /\ LastOf(S2.chain).txs = ToSet(e.txs)), e, "Mine")
     /\ (Ok(e) /\ e.to # "") =>
           Check(\A k \in (DOMAIN S2.w[e.to].outs) \ (DOMAIN st.w[e.to].outs) : PathFresh(hv, e.to, k),
                 "C15", "PathsUnique", e, "coinbase")
     /\ Step(hv)
TNode == /\ (IsEv("node_up") \/ IsEv("node_down"))
         /\ l' = l + 1 /\ st' = S2 /\ hv' = hv /\ aux' = [aux EXCEPT !.nodeUp = (E.ev = "node_up"), !.pre = st, !.hvpre = hv, !.ope = E]

\* ---- refresh ----------------------------------------------------------
\* C04: after a successful refresh the books of the active account equal the chain
BooksEqualChain(e, s2, utxo) ==
  LET w == e.w  a == s2.w[w].active
      mine == {k \in OutsOfAcct(s2, w, a) : s2.w[w].outs[k].st \in {"Unspent", "Locked"}} IN
  /\ Check(\A k \in mine : OID(s2, w, k) \in utxo, "C04", "BooksSubsetOfChain", e, "")
  /\ Check(\A k \in OutsOfAcct(s2, w, a) : (OID(s2, w, k) \in utxo /\ s2.w[w].outs[k].st # "Unconfirmed")
                => k \in mine, "C04", "ChainSubsetOfBooks", e, "")
\* the heights the figures are computed from are the chain's: an Unspent record of the active account
\* carries the height of the block its output is in, a coinbase matures Maturity blocks after THAT
HeightsFromChain(e, s2, utxo) ==
  LET w == e.w  a == s2.w[w].active IN
  Check(\A k \in OutsOfAcct(s2, w, a) :
           (s2.w[w].outs[k].st = "Unspent" /\ OID(s2, w, k) \in utxo /\ HeightOfOut(s2, OID(s2, w, k)) > 0) =>
              /\ s2.w[w].outs[k].h = HeightOfOut(s2, OID(s2, w, k))
              /\ s2.w[w].outs[k].cb => s2.w[w].outs[k].lk = HeightOfOut(s2, OID(s2, w, k)) + Maturity,
        "C04", "HeightsFromChain", e, "")
InfoPartition(e, s2) ==
  LET w == e.w  a == s2.w[w].active  m == e.minconf
      H == s2.w[w].idx[a].confh
      O == s2.w[w].outs
      ks == OutsOfAcct(s2, w, a)
      sum(P(_)) == LET S == {k \in ks : P(k)} IN SumF([k \in S |-> O[k].v], S)
      imm(k) == O[k].st = "Unspent" /\ O[k].cb /\ O[k].lk > H
      awc(k) == \/ O[k].st = "Unspent" /\ ~imm(k) /\ Conf(O[k], H) < m
                \/ O[k].st = "Unconfirmed" /\ ~O[k].cb /\ m = 0
      spd(k) == O[k].st = "Unspent" /\ ~imm(k) /\ Conf(O[k], H) >= m
      awf(k) == O[k].st = "Unconfirmed" /\ ~O[k].cb /\ m # 0
      lck(k) == O[k].st = "Locked"
      rev(k) == O[k].st = "Reverted"
      i == e.info IN
  Check(/\ i.immature = sum(imm) /\ i.awaitconf = sum(awc) /\ i.spendable = sum(spd)
        /\ i.awaitfin = sum(awf) /\ i.locked = sum(lck) /\ i.reverted = sum(rev)
        /\ i.total = i.spendable + i.awaitconf + i.immature /\ i.confh = H,
        "C04", "InfoPartition", e, "")
LedgerEquality(e, s2) ==
  LET w == e.w  a == s2.w[w].active
      T == {t \in DOMAIN s2.w[w].txs : s2.w[w].txs[t].acct = a /\ s2.w[w].txs[t].conf}
      cr == SumF([t \in T |-> s2.w[w].txs[t].cr], T)
      db == SumF([t \in T |-> s2.w[w].txs[t].db], T)
      \* "their summed value": the outputs recorded as unspent or reserved (what the figures total + locked add up to
      \* under any setting that counts confirmed outputs only; with minimum_confirmations = 0 the reported total also
      \* counts unconfirmed change, which no confirmed log entry credits yet - the equality is about the records)
      mine == {k \in OutsOfAcct(s2, w, a) : s2.w[w].outs[k].st \in {"Unspent", "Locked"}}
      bal == SumF([k \in mine |-> s2.w[w].outs[k].v], mine) IN
  /\ Check(cr - db = bal, "C04", "LedgerEquality", e, "")
  /\ (e.minconf >= 1) => Check(bal = e.info.total + e.info.locked, "C04", "LedgerEquality", e, "figures")
TRefresh ==
  /\ IsEv("refresh")
  /\ LET e == E  w == e.w
         clean == w \notin aux.dirty
         utxo == ToSet(Rec[l].obs.utxo)
         expired == {t \in Outstanding(st, w, st.w[w].active) :
                        st.w[w].txs[t].ttl # 0 /\ Len(S2.chain) >= st.w[w].txs[t].ttl} IN
     /\ (Ok(e) /\ e.refreshed /\ clean) =>
          /\ BooksEqualChain(e, S2, utxo)
          /\ InfoPartition(e, S2)
          /\ HeightsFromChain(e, S2, utxo)
          /\ LedgerEquality(e, S2)
     /\ (Ok(e) /\ e.refreshed) =>
          Check(RevertedRestored(st, S2, w, utxo), "C18", "RevertedRestored", e, "refresh")
     /\ (Ok(e) /\ e.refreshed /\ w \in aux.fresh) =>
          \* the first refresh of a restored wallet is a full scan
          Check(RestoredExact(S2, w, utxo, LAMBDA o : HeightOfOut(S2, o)), "C16", "RestoredExact", e, "first refresh")
     /\ (Ok(e) /\ e.refreshed) =>
          \* C17: own expired unconfirmed entries are cancelled and their inputs released
          Check(\A t \in expired : t \in DOMAIN S2.w[w].txs =>
                   \/ S2.w[w].txs[t].conf
                   \/ /\ S2.w[w].txs[t].ty \in {"TxSentCancelled", "TxReceivedCancelled"}
                      /\ \A k \in DOMAIN S2.w[w].outs :
                            (S2.w[w].outs[k].tx = S2.w[w].txs[t].id /\ S2.w[w].outs[k].acct = S2.w[w].txs[t].acct)
                               => S2.w[w].outs[k].st # "Locked",
                "C17", "ExpiredReleased", e, "")
     /\ (~Ok(e) /\ aux.nodeUp /\ Len(e.res) > 4 /\ SubSeq(e.res, 1, 4) = "err:") =>
          \* C17: "a refresh at such a height cancels ..." - a refresh that FAILS with the node reachable while an own
          \* transaction is past its cutoff has not released it (on the pinned tree refresh never fails with the node up)
          Check(\A t \in expired : t \in DOMAIN S2.w[w].txs =>
                   \/ S2.w[w].txs[t].conf
                   \/ S2.w[w].txs[t].ty \in {"TxSentCancelled", "TxReceivedCancelled"},
                "C17", "ExpiredReleased", e, "refresh fails")
     /\ (Ok(e) /\ e.refreshed /\ clean) =>     \* (a scan repair after a reorganisation may cancel entries)
          Check(\A t \in DOMAIN st.w[w].txs :
                   (st.w[w].txs[t].ty \in {"TxSent", "TxReceived"} /\ t \notin expired /\ t \in DOMAIN S2.w[w].txs)
                     => S2.w[w].txs[t].ty \notin {"TxSentCancelled", "TxReceivedCancelled"},
                "C17", "NotExpiredUntouched", e, "refresh")
     /\ IF ~CheckM THEN TRUE
        ELSE IF ~aux.nodeUp THEN CheckMatch(Ok(e) /\ ~e.refreshed /\ S2 = st, e, "RefreshDown")
        ELSE LET r == RefreshFull(st, w) IN
             /\ CheckMatch((r.res = "ok") = Ok(e), e, "Refresh:res:" \o r.res)
             /\ MatchState(LastOr(r.steps, st), e, "Refresh")
     /\ Step(hv)

\* ---- accounts -----------------------------------------------------------
TAccount ==
  /\ (IsEv("create_account") \/ IsEv("set_active"))
  /\ LET e == E  w == e.w IN
     /\ Check(\A k \in DOMAIN st.w[w].outs : k \in DOMAIN S2.w[w].outs /\ S2.w[w].outs[k] = st.w[w].outs[k],
              "C04", "AccountOpsTouchNoOutput", e, "")
     /\ IF ~CheckM THEN TRUE
        ELSE LET r == IF e.ev = "create_account" THEN CreateAccount(st, w, [label |-> e.label, name |-> e.name])
                      ELSE SetActive(st, w, [label |-> e.label]) IN
             /\ CheckMatch((r.res = "ok") = Ok(e), e, "Account:res:" \o r.res)
             /\ MatchState(LastOr(r.steps, st), e, "Account")
     /\ Step(hv)

\* ---- build_coinbase (foreign API) --------------------------------------------
TBuildCoinbase ==
  /\ IsEv("build_coinbase")
  /\ LET e == E  w == e.w
         r == BuildCoinbase(st, w, [fees |-> e.fees, h |-> e.h, key |-> e.key])
         newK == (DOMAIN S2.w[w].outs) \ (DOMAIN st.w[w].outs) IN
     /\ Check(ForeignOnlyAdds(st, S2, w, e.key), "C07", "ForeignOnlyAdds", e, "build_coinbase")
     /\ Check(\A k \in newK : PathFresh(hv, w, k), "C15", "PathsUnique", e, "build_coinbase")
     \* the path the coinbase was built on is a new one - or that of the still-unconfirmed coinbase candidate it
     \* replaces (the one exception the property grants a mining node); never that of any other output
     /\ (Ok(e) /\ Has(e, "retkey") /\ e.retkey # "") =>
           Check(\/ PathFresh(hv, w, e.retkey)
                 \/ /\ e.retkey \in DOMAIN st.w[w].outs
                    /\ st.w[w].outs[e.retkey].cb /\ st.w[w].outs[e.retkey].st = "Unconfirmed",
                 "C15", "PathsUnique", e, "build_coinbase:reuse")
     /\ Ok(e) => MatchState(LastOf(r.steps), e, "BuildCoinbase")
     /\ Step(hv)

\* ---- invoices ---------------------------------------------------------------
TIssueInvoice ==
  /\ IsEv("issue_invoice")
  /\ LET e == E  w == e.w
         a == [sl |-> e.sl, dest |-> IF Has(e.args, "dest") THEN e.args.dest ELSE "", amt |-> e.args.amt]
         r == IssueInvoice(st, w, a)
         newK == (DOMAIN S2.w[w].outs) \ (DOMAIN st.w[w].outs) IN
     /\ Ok(e) => Check(\A k \in newK : PathFresh(hv, w, k), "C15", "PathsUnique", e, "issue_invoice")
     /\ Ok(e) => KeysFresh(NewEntryOutKeys(st, S2, w), w, e, "issue_invoice:recorded")
     /\ (~Ok(e)) => Check(LockedKeys(S2, w) \subseteq LockedKeys(st, w), "C01", "ErrPersistsNothing", e, "issue_invoice")
     /\ Ok(e) => MatchState(LastOf(r.steps), e, "IssueInvoice")
     /\ Step(hv)
ProcArgs(e, post) ==
  LET a == e.args
      opt(f, d) == IF Has(a, f) THEN a[f] ELSE d
      cx == IF e.sl \in DOMAIN post.w[e.w].ctxs THEN post.w[e.w].ctxs[e.sl]
            ELSE [ins |-> {}, outs |-> <<>>, fee |-> 0, acct |-> "a0"]
      nk == post.w[e.w].idx[post.w[e.w].active].child - st.w[e.w].idx[st.w[e.w].active].child IN
  [sl |-> e.sl, src |-> opt("src", ""), amt |-> e.amt,
   sel |-> IF e.sl \in DOMAIN st.w[e.w].ctxs THEN cx.ins \ st.w[e.w].ctxs[e.sl].ins ELSE cx.ins,
   chg |-> [i \in 1..nk |-> cx.outs[i].v], fee |-> cx.fee, ttl |-> e.ttl, minconf |-> opt("minconf", 1)]
TProcessInvoice ==
  /\ IsEv("process_invoice")
  /\ LET e == E  w == e.w
         a == ProcArgs(e, S2)
         r == ProcessInvoice(st, w, a) IN
     /\ (MustRefuseTtl(st, w, e.ttl)) => Check(~Ok(e) /\ S2.w[w] = st.w[w], "C17", "ExpiredRefused", e, "process_invoice")
     /\ (MustNotRefuseTtl(st, w, e.ttl)) => Check(e.res # "err:expired", "C17", "NotExpiredUntouched", e, "process_invoice")
     /\ Ok(e) => Check(SelectAvoidsReserved(st, S2, w, e.sl), "C03", "SelectAvoidsReserved", e, "process_invoice")
     /\ Ok(e) => KeysFresh(NewCtxKeys(st, S2, w, e.sl), w, e, "process_invoice:planned")
     /\ Ok(e) => Check(LockedKeys(S2, w) \subseteq LockedKeys(st, w), "C03", "PayInvoiceLocksNothing", e, "")
     /\ (~Ok(e)) => Check(DOMAIN S2.w[w].ctxs = DOMAIN st.w[w].ctxs /\ LockedKeys(S2, w) \subseteq LockedKeys(st, w),
                          "C01", "ErrPersistsNothing", e, "process_invoice")
     /\ Ok(e) => MatchState(LastOf(r.steps), e, "ProcessInvoice")
     /\ AccountIsolation(E, st, S2)
     /\ Step(IF Ok(e) THEN HvDone(hv, w, "process_invoice", e.sl) ELSE hv)

\* ---- crash / failing write at a persistent-effect boundary (C06) -----------------
\* The line before a run of "crash" lines is the completed operation (aux.pre is the
\* state it started from, st the state it ended in).  Each crash line carries the state
\* found after re-opening the store, the answers of every query, and the outcome of
\* cancelling every pending transaction.
PendingOp(ev) == ev \in {"init_send", "lock", "receive", "finalize", "issue_invoice", "process_invoice", "cancel"}
\* the model's step program of the operation recorded on the line before
OpR(e, pre, post) ==
  CASE e.ev = "init_send" -> IF Ok(e) THEN InitSend(pre, e.w, InitArgs(e, post))
                             ELSE InitSendErr(pre, e.w, InitArgs(e, post),
                                    post.w[e.w].idx[post.w[e.w].active].child - pre.w[e.w].idx[pre.w[e.w].active].child)
    [] e.ev = "lock" -> Lock(pre, e.w, [sl |-> e.sl, stage |-> e.stage, ttl |-> e.ttl, hasproof |-> e.hasproof])
    [] e.ev = "receive" -> Receive(pre, e.w, [sl |-> e.sl, dest |-> e.dest, amt |-> e.amt, ttl |-> e.ttl,
                                              hasproof |-> e.hasproof, kernin |-> e.kernin])
    [] e.ev = "finalize" -> IF e.sl \in DOMAIN pre.w[e.w].ctxs THEN Finalize(pre, e.w, FinalizeArgs(e, pre, post))
                            ELSE [steps |-> <<>>, res |-> "noctx"]
    [] e.ev = "cancel" -> Cancel(pre, e.w, [id |-> e.id, sl |-> e.sl], TRUE)
    [] e.ev = "refresh" -> RefreshFull(pre, e.w)
    [] e.ev = "build_coinbase" -> BuildCoinbase(pre, e.w, [fees |-> e.fees, h |-> e.h, key |-> e.key])
    [] e.ev = "issue_invoice" -> IssueInvoice(pre, e.w, [sl |-> e.sl, dest |-> IF Has(e.args, "dest") THEN e.args.dest ELSE "", amt |-> e.args.amt])
    [] e.ev = "scan" -> Scan(pre, e.w, IF e.start < 0 THEN 1 ELSE e.start, e.del)
    [] OTHER -> [steps |-> <<>>, res |-> "unmodelled"]
TCrash ==
  /\ IsEv("crash")
  /\ LET e == E  w == e.w
         O == ObsWorld(e.obs)
         pre == aux.pre
         rec == e.recover[w]
         kind == e.op.ev IN
     /\ Check(\A i \in DOMAIN e.queries : e.queries[i].res # "panic", "C06", "QueriesTotal", e,
              e.mode \o ":" \o kind \o ":" \o e.point)
     /\ (e.mode = "crash") => Check(\A i \in DOMAIN e.reopen : e.reopen[i][2] = "ok", "C06", "StoreLoads", e, kind)
     /\ (e.mode = "fail") => Check(e.opres # "panic", "C06", "FailingWriteIsError", e, kind \o ":" \o e.point)
     /\ Readable(e.obs.w[w]) =>
          /\ Check(CrashConsistent(O, w), "C06", "CrashConsistent", e, e.mode \o ":" \o kind \o ":" \o e.point)
          /\ Check(\A i \in DOMAIN rec.cancels : rec.cancels[i].res = "ok", "C06", "PendingStillCancellable", e,
                   e.mode \o ":" \o kind)
          /\ PendingOp(kind) =>
                Check(rec.spendable \in {e.base_pre[w].spendable, e.base_post[w].spendable}, "C06", "RecoverByCancel", e,
                      e.mode \o ":" \o kind \o ":" \o e.point)
          \* (a scan is a repair: what it corrects may have been counted as spendable wrongly before)
          /\ (~PendingOp(kind) /\ kind # "scan") =>
                Check(rec.spendable >= e.base_pre[w].spendable, "C06", "RecoverByCancel", e, e.mode \o ":" \o kind)
     \* C05: a cancel interrupted at any point (crash or failing write) has either not happened or is a
     \* complete rollback: an entry that became cancelled holds no reservation and awaits no output
     /\ (kind = "cancel" /\ Readable(e.obs.w[w])) =>
          Check(\A t \in DOMAIN O.w[w].txs :
                   (O.w[w].txs[t].ty \in {"TxSentCancelled", "TxReceivedCancelled"}
                    /\ t \in DOMAIN pre.w[w].txs /\ pre.w[w].txs[t].ty \in {"TxSent", "TxReceived"}) =>
                      LinkedOuts(O, w, t, {"Locked", "Unconfirmed"}) = {},
                "C05", "CancelAllOrNothing", e, e.mode \o ":" \o e.point)
     \* C15: the key handed out right after the interruption (a coinbase request) was never used
     \* before - neither in the state the operation started from nor in what it left behind
     /\ (Readable(e.obs.w[w]) /\ e.next_key # "") =>
          Check(e.next_key \notin (aux.hvpre.issued[w] \cup KeysOf(pre, w) \cup KeysOf(O, w)), "C15", "PathsUniqueAfterCrash", e,
                e.mode \o ":" \o kind \o ":" \o e.point)
     /\ IF ~CheckM THEN TRUE
        ELSE LET r == OpR(aux.ope, pre, st)
                 exp == IF e.k = 1 THEN pre ELSE r.steps[e.k - 1] IN
             /\ CheckMatch(r.res = "unmodelled" \/ Len(r.steps) = e.n, e, "Crash:boundaries:" \o kind)
             /\ (r.res # "unmodelled" /\ e.k - 1 <= Len(r.steps) /\ e.mode = "crash") =>
                   IF exp.w = O.w THEN TRUE
                   ELSE PrintT(<<"NONCONF", ToJson([line |-> l, b |-> e.b, ev |-> e.ev, what |-> "CrashState:" \o kind,
                                                   diff |-> DiffWorld(exp, O)])>>)
     /\ l' = l + 1 /\ UNCHANGED <<st, hv, aux>>

\* ---- forks, restore, scan, injected divergence (C16, C18) ---------------------
Utxo2 == ToSet(Rec[l].obs.utxo)
\* confirmed incoming payments that a reorganisation has just removed (output Unspent before,
\* gone from the chain now, kernel gone): each must be reported reverted by the wallet's next
\* SUCCESSFUL scan, whatever happened in between (a failed scan, a node hiccup)
TFork ==
  /\ IsEv("fork")
  /\ LET e == E
         gone(w) == IF Readable(Rec[l].obs.w[w]) THEN VanishedReceived(S2, w, Utxo2) ELSE {} IN
     /\ CheckMatch(Ok(e), e, "Fork:failed")
     /\ Ok(e) => MatchState(Fork(st, e.depth, ToSet(e.kept)), e, "Fork")
     /\ l' = l + 1 /\ st' = S2 /\ hv' = hv
     /\ aux' = [aux EXCEPT !.dirty = @ \cup DOMAIN S2.w, !.pre = st, !.hvpre = hv, !.ope = E,
                            !.mustRevert = @ \cup UNION {{<<x, t>> : t \in gone(x)} : x \in DOMAIN S2.w}]
TRestore ==
  /\ IsEv("restore")
  /\ Ok(E) => MatchState(Restore(st, E.w, E.from), E, "Restore")
  /\ l' = l + 1 /\ st' = S2 /\ hv' = HvIssued([hv EXCEPT !.lockedBy = Put(@, E.w, <<>>), !.done = Put(@, E.w, {}),
                                                           !.issued = Put(@, E.w, {})], S2)
  /\ aux' = [aux EXCEPT !.pre = st, !.hvpre = hv, !.ope = E, !.fresh = @ \cup {E.w}]
TDiverge ==
  /\ IsEv("diverge")
  /\ Ok(E) => MatchState(Diverge(st, E.w, E.kind, E.key), E, "Diverge")
  /\ l' = l + 1 /\ st' = S2 /\ hv' = hv
  /\ aux' = [aux EXCEPT !.dirty = @ \cup {E.w}, !.pre = st, !.hvpre = hv, !.ope = E]
TScan ==
  /\ IsEv("scan")
  /\ LET e == E  w == e.w
         prev == aux.ope
         repeated == prev.ev = "scan" /\ prev.w = w /\ prev.res = "ok" /\ prev.del = e.del /\ prev.start = e.start
         hOf(o) == HeightOfOut(S2, o) IN
     /\ Ok(e) =>
          /\ Check(ScanEqualsTruth(S2, w, Utxo2, e.del, Len(S2.chain)), "C16", "ScanEqualsTruth", e,
                   IF e.del THEN "del" ELSE "nodel")
          /\ (w \in aux.fresh) => Check(RestoredExact(S2, w, Utxo2, hOf), "C16", "RestoredExact", e, "")
          \* C15: after a restore the next path handed out lies beyond every path found on chain
          /\ (w \in aux.fresh) =>
                Check(\A o \in TruthOuts(S2, w, Utxo2) :
                         S2.reg[o].pa \in DOMAIN S2.w[w].idx => S2.w[w].idx[S2.reg[o].pa].child > S2.reg[o].n,
                      "C15", "RestoreBeyond", e, "")
          /\ repeated => Check([S2.w[w] EXCEPT !.scanned = 0] = [st.w[w] EXCEPT !.scanned = 0], "C16", "ScanIdempotent", e, "")
          /\ Check(RevertedReported(st, S2, w, Utxo2), "C18", "RevertedReported", e, "scan")
          \* history: payments a reorganisation removed and that are still gone must be reverted by now
          /\ Check(\A p \in aux.mustRevert :
                      (p[1] = w /\ p[2] \in DOMAIN S2.w[w].txs /\ S2.w[w].txs[p[2]].ty \in {"TxReceived", "TxReverted"}
                       /\ ~KernelOnChain(S2, S2.w[w].txs[p[2]].kern, MaxOf(S2.w[w].txs[p[2]].minh, 0), Len(S2.chain)))
                        => (S2.w[w].txs[p[2]].ty = "TxReverted" /\ ~S2.w[w].txs[p[2]].conf
                            /\ \A k \in DOMAIN S2.w[w].outs :
                                  (S2.w[w].outs[k].tx = S2.w[w].txs[p[2]].id /\ S2.w[w].outs[k].acct = S2.w[w].txs[p[2]].acct
                                   /\ ~S2.w[w].outs[k].cb /\ OID(S2, w, k) \notin Utxo2) => S2.w[w].outs[k].st = "Reverted"),
                   "C18", "RevertedReportedAfterFaults", e, "scan")
     /\ (~Ok(e) /\ aux.nodeUp /\ Len(e.res) > 4 /\ SubSeq(e.res, 1, 4) = "err:") =>
          \* C16: "scanning ... repairs its output records and balances to the chain's truth" - a scan that FAILS with the
          \* node reachable must leave nothing unrepaired (on the pinned tree scan never fails with the node up)
          Check(ScanEqualsTruth(S2, w, Utxo2, e.del, Len(S2.chain)), "C16", "ScanEqualsTruth", e,
                IF e.del THEN "scan fails:del" ELSE "scan fails:nodel")
     /\ IF ~CheckM THEN TRUE
        ELSE LET r == Scan(st, w, IF e.start < 0 THEN 1 ELSE e.start, e.del) IN
             /\ CheckMatch(Ok(e), e, "Scan:res")
             /\ Ok(e) => MatchState(LastOf(r.steps), e, "Scan")
     /\ Step(hv)

\* a torn stored-transaction file must be reported as an error: never a crash, never a value
TTrunc ==
  /\ IsEv("trunc")
  /\ Check(E.panic = 0, "C06", "PartialFileIsError", E, "get_stored_tx panics on a truncated file")
  /\ Check(E.ok = 0, "C06", "PartialFileIsError", E, "a truncated file is returned as a transaction")
  /\ l' = l + 1 /\ UNCHANGED <<st, hv, aux>>

\* ---- the wallet process is stopped and started again (no crash) -----------
\* everything persistent is found as it was left (the active account is per process: back to default)
PersistFields == {"seed", "outs", "txs", "ctxs", "idx", "files", "labels", "scanned"}
TReopen ==
  /\ IsEv("reopen")
  /\ LET e == E  w == e.w IN
     /\ Check(Ok(e), "C06", "StoreLoads", e, "restart")
     /\ Ok(e) => Check(\A f \in PersistFields \cap DOMAIN st.w[w] : S2.w[w][f] = st.w[w][f], "C06", "RestartKeepsStore", e, "")
     /\ CheckMatch(Ok(e) => S2 = [st EXCEPT !.w[w].active = "a0"], e, "Reopen")
  /\ Step(hv)

\* ---- owner::build_output / owner::create_mwixnet_req -------------------------
\* a key handed out for an output built for the caller is as fresh as any other (C15: "built outputs");
\* the history variable `issued` remembers it although no record is stored
BuiltKey(e) == IF Has(e, "bkey") /\ e.bkey # "" /\ e.res = "ok" THEN {e.bkey} ELSE {}
HvBuilt(e) == [hv EXCEPT !.issued[e.w] = @ \cup BuiltKey(e)]
TBuildOutput ==
  /\ IsEv("build_output")
  /\ LET e == E  w == e.w
         r == BuildOutput(st, w) IN
     /\ Ok(e) => Check(PathFresh(hv, w, e.bkey), "C15", "PathsUnique", e, "build_output")
     /\ Ok(e) => CheckMatch(e.bkey = r.key, e, "BuildOutput:key")
     /\ Ok(e) => MatchState(LastOf(r.steps), e, "BuildOutput")
     /\ Step(HvBuilt(e))
TMwixReq ==
  /\ IsEv("mwix_req")
  /\ LET e == E  w == e.w
         r == MwixReq(st, w, [k |-> e.key, lock |-> e.lock]) IN
     /\ Ok(e) => Check(PathFresh(hv, w, e.bkey), "C15", "PathsUnique", e, "mwix_req")
     /\ CheckMatch((r.res = "ok") = Ok(e), e, "MwixReq:res:" \o r.res)
     /\ MatchState(LastOr(r.steps, st), e, "MwixReq")
     /\ Step(HvBuilt(e))

\* ---- view wallet: what the holder of the rewind hash is shown (conformance only) ---------
TViewScan ==
  /\ IsEv("view_scan")
  /\ LET e == E
         v == ViewScan(st, e.w, e.start)
         obs == {[o |-> e.outs[i].o, v |-> e.outs[i].v, h |-> e.outs[i].h, cb |-> e.outs[i].cb, lk |-> e.outs[i].lk] : i \in DOMAIN e.outs} IN
     /\ CheckMatch(Ok(e), e, "ViewScan:res")
     /\ Ok(e) => CheckMatch(obs = v.outs /\ e.total = v.total /\ Len(e.outs) = Cardinality(v.outs), e, "ViewScan")
     /\ CheckMatch(S2 = st, e, "ViewScan:changed-the-world")
     /\ Step(hv)

\* ---- anything else: observe only ------------------------------------------
Known == {"reset", "init_send", "lock", "receive", "finalize", "cancel", "post", "mine", "node_up", "node_down",
          "refresh", "create_account", "set_active", "build_coinbase", "issue_invoice", "process_invoice", "crash", "trunc", "fork", "restore", "diverge", "scan", "reopen", "build_output", "mwix_req", "view_scan"}
TOther == /\ l <= Len(Rec) /\ Rec[l].ev \notin Known /\ ~Skipped
          /\ Step(hv)
TSkipped == /\ Skipped
            /\ CheckMatch(S2 = st, E, "SkippedStepChangedTheWorld")
            /\ Step(hv)

TInit == /\ l = 1 /\ st = [w |-> <<>>, chain |-> <<>>, pool |-> {}, body |-> <<>>, reg |-> <<>>, nrep |-> <<>>]
         /\ hv = EmptyHist({}) /\ aux = [nodeUp |-> TRUE, dirty |-> {}, pre |-> <<>>, hvpre |-> EmptyHist({}), ope |-> <<>>, fresh |-> {}, mustRevert |-> {}]
TNext == \/ TReset \/ TInitSend \/ TLock \/ TReceive \/ TFinalize \/ TCancel \/ TCancelRaw \/ TPost \/ TMine \/ TNode
         \/ TRefresh \/ TAccount \/ TBuildCoinbase \/ TIssueInvoice \/ TProcessInvoice \/ TCrash \/ TTrunc \/ TFork \/ TRestore \/ TDiverge \/ TScan \/ TReopen \/ TBuildOutput \/ TMwixReq \/ TViewScan \/ TOther \/ TSkipped
TSpec == TInit /\ [][TNext]_tvars

\* every line must have been consumed (the spec has no way to get stuck other
\* than an evaluation error, which TLC reports)
Consumed == IF TLCGet("stats").diameter - 1 = Len(Rec) THEN PrintT(<<"CONSUMED", Len(Rec)>>)
            ELSE PrintT(<<"STUCK", TLCGet("stats").diameter>>)
=============================================================================
