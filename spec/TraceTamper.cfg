\* trace validation, Layer P + Layer M (the pinned code: no check skipped in the transcription)
CONSTANTS
  \* "ctx_state_check": the pinned code lacks that check (fixes/C02-1.patch); lib/prop_C02.py writes the
  \* cfg it uses from the known-findings status, this file is the stand-alone form for the pinned tree
  Skip = {"ctx_state_check"}
  CheckM = TRUE
SPECIFICATION TSpec
POSTCONDITION Consumed
CHECK_DEADLOCK FALSE
