\* trace validation, Layer P + Layer M (the pinned code: no check skipped in the transcription)
CONSTANTS
  Skip = {}
  CheckM = TRUE
SPECIFICATION TSpec
POSTCONDITION Consumed
CHECK_DEADLOCK FALSE
