\* thorough tier, part 2: 60 sampled logs (1..5 entries) + the designed log; singles, all pairs, 400 random multi-field queries per (log, active)
CONSTANTS
  MaxLen = 5
  NLogs = 60
  ExhaustOne = FALSE
  Arity = 2
  NRand = 400
  Dev = {"CreationUpperBoundReadsMinConfirmed", "AdvancedIgnoresAccount"}
SPECIFICATION Spec
INVARIANT Inv_Reference
INVARIANT Inv_Repaired
INVARIANT Inv_Readings
INVARIANT Inv_CodeModel
INVARIANT Emit
CHECK_DEADLOCK FALSE
