CONSTANTS
  Inits = {"fresh", "funded", "pendsend", "pendrecv", "done"}
  MaxHist = 3
  MaxGen = 3
  HistOps <- HistOpsFull
  UseNode = TRUE
  UseClose = TRUE
SPECIFICATION Spec
INVARIANT TypeOK
INVARIANT Inv_Twin
INVARIANT Inv_Tokens
PROPERTY Prop_Mask
PROPERTY EmitCases
VIEW View
CHECK_DEADLOCK FALSE
