\* trace validation, Layer P only (fallback when Layer M cannot be evaluated)
CONSTANTS
  Skip = {}
  CheckM = FALSE
SPECIFICATION TSpec
POSTCONDITION Consumed
CHECK_DEADLOCK FALSE
