\* trace validation, Layer P only (fallback when Layer M cannot be evaluated)
CONSTANTS
  \* "ctx_state_check": the pinned code lacks that check (fixes/C02-1.patch); lib/prop_C02.py writes the
  \* cfg it uses from the known-findings status, this file is the stand-alone form for the pinned tree
  Skip = {"ctx_state_check"}
  CheckM = FALSE
SPECIFICATION TSpec
POSTCONDITION Consumed
CHECK_DEADLOCK FALSE
