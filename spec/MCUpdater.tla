----------------------------- MODULE MCUpdater -----------------------------
(***************************************************************************)
(* Updater.tla with the commands a driver can issue recorded in `cmds`     *)
(* (start / start_badmask / stop / pass = let the pass under way finish /  *)
(* close = close_wallet under the parked pass / open = open_wallet):       *)
(* every transition prints the command script that leads to it; the        *)
(* scripts run on the real code (harness/replay_updater) and the observed  *)
(* thread events are validated against Updater.tla (TraceUpdater.tla).     *)
(* A thread started with a token that is not the wallet's fails its first  *)
(* pass (kind "bad"); the others never fail.                               *)
(***************************************************************************)
EXTENDS Updater, Json

VARIABLES cmds, kind
mvars == <<vars, cmds, kind>>
Waiting == {t \in DOMAIN th : th[t] = "waiting"}

MInit == Init /\ cmds = <<>> /\ kind = <<>>
MStart(k) == /\ Waiting = {}          \* (one waiting thread at a time: the order in which several get the mutex is not specified)
             /\ open                   \* (a run over a closed wallet has no lock point to observe it at: model-only, MC_Updater.cfg)
             /\ Start /\ kind' = Append(kind, k)
             /\ cmds' = Append(cmds, [ev |-> IF k = "bad" THEN "start_badmask" ELSE "start"])
MStop == Stop /\ cmds' = Append(cmds, [ev |-> "stop"]) /\ UNCHANGED kind
MPass(t) == /\ t \in DOMAIN th /\ th[t] = "pass"
            /\ IF kind[t] = "bad" THEN Fail(t) ELSE End(t)
            /\ cmds' = Append(cmds, [ev |-> "pass"]) /\ UNCHANGED kind
\* "let the pass finish and call stop_updater right away": the stop lands in the thread's sleep when the pass was
\* not stopped before (End, then Stop) - the case in which one more pass begins after the stop
MPassStop(t) ==
  /\ t \in DOMAIN th /\ th[t] = "pass" /\ kind[t] = "good" /\ running
  /\ th' = [th EXCEPT ![t] = "sleep"] /\ running' = FALSE /\ stopSeen' = passes /\ begunAfterStop' = 0
  /\ UNCHANGED <<holder, open, passes, kind>>
  /\ cmds' = Append(cmds, [ev |-> "pass_stop"])
\* owner::close_wallet while a pass is under way (the thread is parked at a lock point of update_wallet_state): the
\* pass fails at its next wallet_lock! (lc.wallet_inst() is an error on a closed wallet), the run ends with that
\* error and the flag stays up - the thread becomes one whose pass fails
MClose(t) == /\ t \in DOMAIN th /\ th[t] = "pass" /\ kind[t] = "good" /\ open /\ Waiting = {}
             /\ OpenClose /\ kind' = [kind EXCEPT ![t] = "bad"]
             /\ cmds' = Append(cmds, [ev |-> "close"])
\* owner::open_wallet once nobody runs (a new token: later starts use it)
MOpen == /\ ~open /\ Live = {} /\ OpenClose /\ UNCHANGED kind
         /\ cmds' = Append(cmds, [ev |-> "open"])
\* what the code does by itself, as soon as it can
MAuto(t) == (Acquire(t) \/ Begin(t) \/ Wake(t)) /\ UNCHANGED <<cmds, kind>>
AutoEnabled == \E t \in Ids : ENABLED Acquire(t) \/ ENABLED Begin(t) \/ ENABLED Wake(t)
\* commands are issued only when the code has nothing left to do by itself (the driver waits for that)
MNext == \/ \E t \in Ids : MAuto(t)
         \/ ~AutoEnabled /\ (Len(cmds) < MaxCmds) /\ ((\E k \in {"good", "bad"} : MStart(k)) \/ MStop \/ MOpen \/ \E t \in Ids : (MPass(t) \/ MPassStop(t) \/ MClose(t)))
MSpec == MInit /\ [][MNext]_mvars
Emit == [][cmds' # cmds => PrintT(<<"SCRIPT", ToJson(cmds')>>)]_mvars
=============================================================================
