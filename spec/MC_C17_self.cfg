CONSTANTS
  Reward = 60000
  Maturity = 3
  Slates = {"s1"}
  Amounts = {1000}
  NFund = 2
  MaxH = 8
  MaxLog = 3
  UseLate = FALSE
  UseTtl = TRUE
  UseInvoice = FALSE
  UseAccounts = FALSE
  UseMineTo = FALSE
  UseCancelBySlate = FALSE
  MaxAdv = 1
  MaxFork = 0
  UseScan = FALSE
  UseAccounts2 = FALSE
  UseSelf = TRUE
  FundAcct2 = FALSE
  UseBuild = FALSE
  NChanges = {1}
  QuietW2 = TRUE
  UseFarTtl = TRUE
  UseDiverge = FALSE
  UseAdv = FALSE
SPECIFICATION Spec
INVARIANT TypeOK
INVARIANT Inv_Exclusive
PROPERTY Prop_Replay
PROPERTY Prop_SelectAvoidsReserved
PROPERTY Prop_Cancel
PROPERTY Prop_Foreign
PROPERTY Prop_Paths
PROPERTY Prop_Ttl
PROPERTY EmitEdges
CONSTRAINT Bound
VIEW View
CHECK_DEADLOCK FALSE
