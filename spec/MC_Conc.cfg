CONSTANTS
  Reward = 60000
  Maturity = 3
  Slates = {"s1"}
  Amounts = {1000}
  NFund = 2
  MaxH = 9
  MaxLog = 3
  UseLate = FALSE
  UseTtl = FALSE
  UseInvoice = FALSE
  UseAccounts = FALSE
  UseMineTo = FALSE
  UseCancelBySlate = FALSE
  MaxAdv = 0
  MaxFork = 0
  UseScan = FALSE
  UseAccounts2 = FALSE
  UseSelf = FALSE
  FundAcct2 = FALSE
  UseBuild = FALSE
  NChanges = {1}
  QuietW2 = FALSE
  UseFarTtl = FALSE
  UseDiverge = FALSE
  UseAdv = FALSE
  Scen = {1, 2, 3, 4, 5, 6, 7, 8}
SPECIFICATION CSpec
INVARIANT Inv_Serializable
INVARIANT Inv_Lemma
INVARIANT NoDeadlock
CHECK_DEADLOCK FALSE
