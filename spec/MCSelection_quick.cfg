CONSTANTS
  GridA = {50, 100, 120}
  MaxNA = 3
  GridS = {50}
  MaxNS = 2
  GridE = {100}
  EligHL <- HLSmall
  MaxNE = 2
  MaxOutsSet = {0, 1, 2, 500}
  MinConfs = {0, 1, 2}
  FlowsE = {"send", "late"}
  ModA = 120
  ModS = 30
  ModE = 200
  LateFactor = 2
  Seed = 1
  NWide = 400
  CheckFixed = FALSE
  CexScale = 1
INIT Init
NEXT Next
INVARIANT Inv
CHECK_DEADLOCK FALSE
