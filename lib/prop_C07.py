"""C07 The foreign API only adds funds, once per slate."""
import wallet_checks
from wallet_common import *

MANIFEST_ENTRY = dict(
    cat="model_checking", ref='DESIGN.md 4 C07', engine="wallet-tla",
    text="TLC explores histories in which an adversary uses w1's foreign API (its own S1 slate relabelled as a reply against normal and late-locked contexts, build_coinbase naming every existing key, the wallet's own slate delivered to its own receive) interleaved with honest traffic, and checks ForeignOnlyAdds on the model; model counter-examples and a sample of behaviours covering every class of named record are replayed on the real code - half of them through the wallet's foreign JSON-RPC listener (request mapping of foreign_rpc.rs, version middleware, api::Foreign) and api::Owner instead of libwallet::api_impl - and judged by ForeignOnlyAdds / ReceiveExactlyOnce / ReplyOwnDataOnly on observed states.",
    technique="TLC model checking of spec/MCWallet.tla + TLC-generated behaviours replayed on the real code + TLC trace validation (spec/TraceWallet.tla)",
    note=WALLET_NOTE)

PARAMS = dict(quick_cfgs=['MC_C07_quick.cfg', 'MC_C07_acct.cfg'], thorough_cfgs=['MC_C07.cfg', 'MC_C07_late.cfg', 'MC_C07_acct.cfg'], quick_n=110, thorough_n=500, focus=['receive', 'tamper', 'build_coinbase', 'foreign'],
              setup=STD_SETUP, assumptions=WALLET_ASSUME, extra_behaviours=[])


def run(tier, replay_path, t0):
    return wallet_checks.run("C07", tier, with_replay(PARAMS, replay_path), t0)
