"""C15 No key derivation path is used for two outputs."""
import wallet_checks
from wallet_common import *

MANIFEST_ENTRY = dict(
    cat="model_checking", ref='DESIGN.md 4 C15', engine="wallet-tla",
    text='TLC explores output-creating histories over two accounts (receive, change, coinbase to the wallet, invoice in thorough, account switching, sends from a named account while another is active) and checks that no key is ever handed to a new output twice (history variable `issued`); the behaviours run on real wallets and TLC checks PathsUnique on every observed new record. Crash points and restores are covered by C06 / C16.',
    technique="TLC model checking of spec/MCWallet.tla + TLC-generated behaviours replayed on the real code + TLC trace validation (spec/TraceWallet.tla)",
    note=WALLET_NOTE)

PARAMS = dict(quick_cfgs=['MC_C15_quick.cfg'], thorough_cfgs=['MC_C15.cfg'], quick_n=60, thorough_n=500,
              setup=STD_SETUP, assumptions=WALLET_ASSUME, extra_behaviours=[])


def run(tier, replay_path, t0):
    return wallet_checks.run("C15", tier, with_replay(PARAMS, replay_path), t0)
