"""C15 No key derivation path is used for two outputs."""
import wallet_checks
from wallet_common import *

MANIFEST_ENTRY = dict(
    cat="model_checking", ref='DESIGN.md 4 C15', engine="wallet-tla",
    text='TLC explores output-creating histories over two accounts (receive, change, coinbase to the wallet, outputs built for the caller with owner::build_output, the output a mwixnet swap request builds (owner::create_mwixnet_req, with and without reserving the swapped output), coinbase requests naming the key of every existing record (the one exception granted to a mining node: the still-unconfirmed candidate it replaces), invoice in thorough, account switching, sends from a named account while another is active) and checks that no key is ever handed to a new output twice (history variable `issued`); the behaviours run on real wallets and TLC checks PathsUnique on every observed new record. For a sample of the generated output-creating operations the harness also enumerates every crash / failing-write point (as in C06), re-opens the wallet and asks it for one more key: TLC checks the key was never handed out before (PathsUniqueAfterCrash). Restores are covered here (directed behaviour, RestoreBeyond) and by C16.',
    technique="TLC model checking of spec/MCWallet.tla + TLC-generated behaviours replayed on the real code + TLC trace validation (spec/TraceWallet.tla)",
    note=WALLET_NOTE)

PARAMS = dict(quick_cfgs=['MC_C15_quick.cfg', 'MC_C15_buildq.cfg', 'MC_C07_quick.cfg'], thorough_cfgs=['MC_C15.cfg', 'MC_C03_acct.cfg', 'MC_C15_build.cfg', 'MC_C07_quick.cfg', 'MC_C07_acct.cfg', 'MC_C03_three.cfg@sim=500x30'], quick_n=110, thorough_n=600, focus=['set_active', 'create_account', '>', 'build_output', 'mwix_req', 'build_coinbase'],
              crash_cases_quick=10, crash_cases_thorough=80, crash_ops=['receive', 'lock', 'finalize', 'process_invoice', 'init_send'],
              setup=STD_SETUP, assumptions=WALLET_ASSUME, extra_behaviours=[
    # directed: a restore from seed when the last output in chain order is NOT the one with the
    # highest derivation index (the change output of an earlier send is mined after a later coinbase)
    [{"ev": "init_send", "w": "w1", "sl": "s1", "amt": 1000}, {"ev": "mine", "to": "w1", "txs": []},
        {"ev": "lock", "w": "w1", "sl": "s1", "stage": "S1"}, {"ev": "receive", "w": "w2", "sl": "s1"},
        {"ev": "finalize", "w": "w1", "sl": "s1", "stage": "S2"}, {"ev": "post", "sl": "s1"}, {"ev": "mine", "to": "", "txs": ["s1"]},
        {"ev": "refresh", "w": "w1"}, {"ev": "restore", "w": "w3", "from": "w1"}, {"ev": "scan", "w": "w3", "start": 1, "del": False},
        {"ev": "mine", "to": "w3", "txs": []}, {"ev": "refresh", "w": "w3"}, {"ev": "scan", "w": "w3", "start": 1, "del": False}]])


def run(tier, replay_path, t0):
    return wallet_checks.run("C15", tier, with_replay(PARAMS, replay_path), t0)
