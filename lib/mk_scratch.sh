#!/bin/bash
# lib/mk_scratch.sh <dir> : a private copy of /repo and of /verif (harness pointed at the copy)
# for trying patches and mutants without touching /repo.  Remove <dir> when done.
set -e
D="$1"; [ -n "$D" ] || { echo "usage: mk_scratch.sh <dir>"; exit 2; }
mkdir -p "$D"
rsync -a --delete --exclude target --exclude .git /repo/ "$D/repo/"
(cd "$D/repo" && git init -q 2>/dev/null && git add -A >/dev/null 2>&1 && git -c user.email=x@x -c user.name=x commit -qm base >/dev/null 2>&1 || true)
rsync -a --delete --exclude harness/target --exclude work --exclude .git /verif/ "$D/verif/"
sed -i "s#path = \"/repo/#path = \"$D/repo/#g" "$D/verif/harness/Cargo.toml"
echo "scratch repo: $D/repo   scratch verif: $D/verif  (run checks with: cd $D/verif && ./check <ID>)"
