"""Shared machinery of the checks: build the harness from /repo's working tree,
run TLC (model checking, generation, trace validation), classify findings,
write evidence."""
import json, os, re, subprocess, sys, time, random, shutil, hashlib

VERIF = os.path.dirname(os.path.dirname(os.path.abspath(__file__)))
SPEC = os.path.join(VERIF, "spec")
HARNESS = os.path.join(VERIF, "harness")
WORK = os.environ.get("VERIF_WORK", os.path.join(VERIF, "work"))
EVID = os.path.join(VERIF, "evidence")
BIN = os.path.join(HARNESS, "target", "debug")
TLA_JAR = "/opt/veriftools/tla/tla2tools.jar"
MC_WORKERS = int(os.environ.get("VERIF_TLC_WORKERS", "10"))
JOBS = int(os.environ.get("VERIF_JOBS", "12"))


class ToolError(Exception):
    pass


def log(*a):
    print(*a, flush=True)


def seed():
    try:
        return int(os.environ.get("VERIF_SEED", "1"))
    except ValueError:
        return 1


def workdir(name):
    d = os.path.join(WORK, name)
    shutil.rmtree(d, ignore_errors=True)
    os.makedirs(d, exist_ok=True)
    return d


def build_harness(bins=None):
    """(re)build the harness against /repo's current working tree, hooks on"""
    t0 = time.time()
    cmd = ["cargo", "build", "--offline"]
    for b in bins or []:
        cmd += ["--bin", b]
    env = dict(os.environ, CARGO_NET_OFFLINE="true")
    p = subprocess.run(cmd, cwd=HARNESS, env=env, stdout=subprocess.PIPE, stderr=subprocess.STDOUT, text=True)
    if p.returncode != 0:
        log(p.stdout[-4000:])
        raise ToolError("harness build failed (does /repo still compile?)")
    return time.time() - t0


def run_tlc(module, cfg, tag, workers=None, extra=None, env=None, timeout=1800, simulate=None, depth_first=False,
            keep_tags=("REPLAY", "CEX"), max_keep=20000, prefer=()):
    """run TLC in spec/; stdout goes to a file and is streamed: lines printed by
    PrintT(<<"TAG", json>>) for TAG in keep_tags are reservoir-sampled (at most max_keep per
    tag, seeded) into r["printed"][TAG] as raw strings, everything else is kept as r["out"]."""
    meta = workdir("tlc_" + tag)
    jopts = "-Xss1g" + (" -Xmx20g" if (workers or MC_WORKERS) > 1 and not simulate else "")
    if depth_first:
        jopts += " -Dtlc2.tool.queue.IStateQueue=StateDeque"
    e = dict(os.environ)
    e["JAVA_TOOL_OPTIONS"] = jopts
    if env:
        e.update(env)
    cmd = ["timeout", "-k", "10", str(timeout), "tlc", "-workers", str(workers or MC_WORKERS), "-metadir", meta, "-cleanup",
           "-noGenerateSpecTE", "-config", cfg]
    if simulate:
        cmd += ["-simulate", simulate]
    cmd += (extra or []) + [module]
    t0 = time.time()
    outf = os.path.join(WORK, "tlc_%s.out" % tag)
    with open(outf, "w") as f:
        p = subprocess.run(cmd, cwd=SPEC, env=e, stdout=f, stderr=subprocess.STDOUT, text=True)
    shutil.rmtree(meta, ignore_errors=True)
    # lines are sampled DETERMINISTICALLY whatever order TLC's workers print them in:
    # the max_keep lines with the smallest hash(seed, line) are kept, then sorted
    import heapq
    sd = str(seed()).encode()
    heaps = {t: [] for t in keep_tags}
    pheaps = {t: [] for t in keep_tags}      # lines mentioning one of `prefer`: sampled separately, kept first
    counts = {t: 0 for t in keep_tags}
    rest = []
    prefixes = {t: '<<"%s", ' % t for t in keep_tags}
    with open(outf, errors="replace") as f:
        for line in f:
            hit = False
            for t, pre in prefixes.items():
                if line.startswith(pre):
                    hit = True
                    counts[t] += 1
                    h = hashlib.sha1(sd + line.encode()).digest()
                    hp = pheaps[t] if prefer and any(x in line for x in prefer) else heaps[t]
                    # max-heap on the hash (store negated bytes via tuple of ints is slow: use int)
                    hv = int.from_bytes(h[:8], "big")
                    if len(hp) < max_keep:
                        heapq.heappush(hp, (-hv, line))
                    elif -hp[0][0] > hv:
                        heapq.heapreplace(hp, (-hv, line))
                    break
            if not hit and len(rest) < 20000:
                rest.append(line)
    printed = {t: [l for _, l in sorted(pheaps[t], key=lambda x: (-x[0], x[1]))] + [l for _, l in sorted(heaps[t], key=lambda x: (-x[0], x[1]))]
               for t in keep_tags}
    try:
        os.remove(outf)
    except OSError:
        pass
    out = "".join(rest)
    r = {"out": out, "rc": p.returncode, "wall_s": time.time() - t0, "printed": printed, "printed_counts": counts}
    m = re.search(r"(\d+) states generated, (\d+) distinct states found", out)
    if not m:
        # no final summary (the run was cut by its time budget): the last progress line
        pm = re.findall(r"Progress\(\d+\) at [^:]+:\d+:\d+: ([\d,]+) states generated \([^)]*\), ([\d,]+) distinct states found", out)
        if pm:
            m = re.match(r"(\d+) (\d+)", "%s %s" % (pm[-1][0].replace(",", ""), pm[-1][1].replace(",", "")))
    r["states"] = int(m.group(2)) if m else 0
    r["transitions"] = int(m.group(1)) if m else 0
    m = re.search(r"depth of the complete state graph search is (\d+)", out)
    r["depth"] = int(m.group(1)) if m else 0
    r["completed"] = "Model checking completed" in out
    r["violated"] = re.findall(r"Invariant (\w+) is violated|Action property (\w+) is violated|property (\w+) is violated", out)
    r["error"] = ("Error:" in out and not r["violated"]) or p.returncode in (124, 137)
    r["coverage"] = {}
    return r


def parse_printed(lines, tag):
    return tlc_printed("".join(lines), tag)


def tlc_printed(out, tag):
    """extract PrintT(<<tag, json-string>>) lines"""
    res = []
    pat = re.compile(r'^<<"' + re.escape(tag) + r'", "(.*)">>\s*$')
    for line in out.splitlines():
        m = pat.match(line.strip())
        if m:
            s = m.group(1)
            try:
                res.append(json.loads(json.loads('"' + s + '"')))
            except Exception:
                try:
                    res.append(json.loads(s.replace('\\"', '"')))
                except Exception:
                    pass
    return res


def replay(binary, inp_obj, tag, extra_args=None, timeout=3600):
    d = workdir("replay_" + tag)
    inp = os.path.join(d, "in.json")
    out = os.path.join(d, "events.ndjson")
    with open(inp, "w") as f:
        json.dump(inp_obj, f)
    cmd = ["timeout", str(timeout), os.path.join(BIN, binary), "--in", inp, "--out", out, "--jobs", str(JOBS)] + (extra_args or [])
    env = dict(os.environ, VERIF_TMP=os.environ.get("VERIF_TMP", os.path.join(HARNESS, "target", "tmp")))
    p = subprocess.run(cmd, env=env, stdout=subprocess.PIPE, stderr=subprocess.STDOUT, text=True)
    if p.returncode != 0 or not os.path.exists(out):
        log(p.stdout[-3000:])
        raise ToolError("harness %s failed rc=%s" % (binary, p.returncode))
    return out


def validate_trace(module, cfg, ndjson, tag, timeout=900, cfg_fallback=None):
    """run the trace spec over an ndjson file; returns (viols, nonconfs, consumed_ok, raw)"""
    r = run_tlc(module, cfg, "tv_" + tag, workers=1, env={"TRACE": ndjson}, timeout=timeout, depth_first=True, keep_tags=())
    out = r["out"]
    consumed = tlc_consumed(out)
    m_ok = True
    if consumed is None and cfg_fallback:
        # Layer M evaluation aborted TLC (model operator undefined on an observed state):
        # that is a nonconformance of its own; re-judge with Layer P alone
        m_ok = False
        r = run_tlc(module, cfg_fallback, "tvp_" + tag, workers=1, env={"TRACE": ndjson}, timeout=timeout, depth_first=True, keep_tags=())
        out2 = r["out"]
        consumed = tlc_consumed(out2)
        viols = tlc_printed(out2, "VIOL")
        nonconfs = tlc_printed(out, "NONCONF") + [{"line": -1, "b": -1, "ev": "?", "what": "LayerM-evaluation-aborted"}]
        if consumed is None:
            log(out2[-3000:])
            raise ToolError("trace validation did not consume the trace")
        return viols, nonconfs, m_ok, out2
    if consumed is None:
        log(out[-3000:])
        raise ToolError("trace validation did not consume the trace")
    return tlc_printed(out, "VIOL"), tlc_printed(out, "NONCONF"), m_ok, out


def tlc_consumed(out):
    m = re.search(r'<<"CONSUMED", (\d+)>>', out)
    return int(m.group(1)) if m else None


def read_ndjson(path):
    with open(path) as f:
        return [json.loads(l) for l in f if l.strip()]


# ----------------------------------------------------------------- findings
def load_known():
    import glob
    out = []
    p = os.path.join(VERIF, "known_findings.json")
    if os.path.exists(p):
        out += json.load(open(p)).get("findings", [])
    for f in sorted(glob.glob(os.path.join(VERIF, "known_findings.d", "*.json"))):
        out += json.load(open(f)).get("findings", [])
    return out


def classify(prop, keys_with_info):
    """keys_with_info: dict key -> info (sample).  Returns (known, new)"""
    known_list = [k for k in load_known() if k.get("property") == prop and k.get("status") == "known"]
    known, new = {}, {}
    for key, info in keys_with_info.items():
        hit = None
        for k in known_list:
            if k["key"] == key:
                hit = k
                break
        if hit:
            known[key] = (hit, info)
        else:
            new[key] = info
    return known, new


def finish(prop, tier, level, coverage, assumptions, t0, known, new, replay_dir=None, extra=None):
    """print verdict lines, write evidence, exit"""
    os.makedirs(EVID, exist_ok=True)
    for key, (k, info) in known.items():
        log("KNOWN-FINDING: property=%s %s [%s]" % (prop, k.get("what", ""), key))
    rc = 0
    shutil.rmtree(os.path.join(WORK, "violations", prop), ignore_errors=True)
    if new:
        d = os.path.join(WORK, "violations", prop)
        os.makedirs(d, exist_ok=True)
        for i, (key, info) in enumerate(sorted(new.items())):
            h = hashlib.sha1(key.encode()).hexdigest()[:10]
            path = os.path.join(d, "%s.json" % h)
            with open(path, "w") as f:
                json.dump({"property": prop, "key": key, "info": info}, f, indent=1, default=str)
            log("VIOLATION property=%s replay=%s" % (prop, path))
            log("  key: %s" % key)
        rc = 1
    ev = {
        "property_id": prop,
        "tier": tier,
        "seed": seed(),
        "level": level,
        "coverage": coverage,
        "assumptions": assumptions,
        "wall_s": round(time.time() - t0, 1),
        "violations": len(new),
    }
    if extra:
        ev.update(extra)
    ev["known_findings_seen"] = sorted(known.keys())
    with open(os.path.join(EVID, "%s.json" % prop), "w") as f:
        json.dump(ev, f, indent=1, default=str)
    log("%s %s: %s (%.0fs)" % (prop, tier, "VIOLATIONS" if rc else "ok", time.time() - t0))
    sys.exit(rc)


def sample(lst, n, rnd):
    if len(lst) <= n:
        return list(lst)
    return rnd.sample(lst, n)
