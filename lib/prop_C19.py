"""C19 Transaction-log queries return exactly what was asked for.

Pipeline (all verdicts are TLC's; this file only moves data around):
  MC/GEN  tlc model-checks spec/MCTxQuery.tla: every case (log, active account, query) is a
          state; the reference, the repaired code model and the three-valued readings are
          checked on every case; the monitors broken by the code model WITH the pinned
          deviations are recorded as model counter-examples; every case is printed as JSON.
  RUN     harness/replay_query writes each log into a fresh LMDB wallet and calls
          owner::retrieve_txs for every case; the returned entries are recorded.
  TV      tlc validates the recorded answers under spec/TraceTxQuery.tla: Layer-P monitors
          (TxQuery!Violated on the OBSERVED answer) print VIOL, Layer M (answer = RunCode
          exactly) prints NONCONF.
  KEY     every violating case is re-run with every proper subset of its query fields
          (RUN + TV again); the violation is filed under the smallest sub-query that still
          breaks the same monitor:  C19/<monitor>/<kind>[<fields>].
"""
import json, os, random, re, time, collections, concurrent.futures
from common import *

PROP = "C19"
MANIFEST_ENTRY = dict(
    cat="model_checking", ref="DESIGN.md 2.5, 4 C19", engine="txquery-tla",
    text="TLC enumerates transaction logs (all one-entry logs exhaustively in the thorough tier; a seeded sample of logs of up to 5 entries over all six entry types x two accounts x confirmed/unconfirmed x 3 creation times x 4 confirmation times x 9 amount shapes x 3 slate ids, plus one designed log) and, for each log and each active account, every single query field at every value of its discriminating range, every pair of fields, seeded random 3-filter + sort x order x limit combinations (thorough), and the legacy look-ups by id / slate id. On every case TLC checks that the reference operator and the repaired code model satisfy the property monitors and that the code model with the pinned deviations yields the recorded counter-examples. Every generated case is executed on a real LMDB wallet through owner::retrieve_txs and the observed answers are judged by the same TLA+ monitors (soundness per criterion, completeness, active account only, sortedness, limit prefix); refinement to the code-shaped model (Layer M) is checked exactly.",
    technique="TLC model checking / case generation (spec/MCTxQuery.tla over spec/TxQuery.tla) + replay on the real code (harness/replay_query) + TLC trace validation (spec/TraceTxQuery.tla)",
    note="Trusted: LMDB, serde/chrono, the projection of returned entries in harness/src/bin/replay_query/main.rs (it maps timestamps and slate ids back to model values and judges nothing). Timestamps are whole multiples of 1000 s, amounts are small integers (< 2^31; BigInt arithmetic near 2^64 is not exercised). The internal outstanding-only look-up of updater::retrieve_txs is not reachable through the owner API and is checked on the model only. The verdict comes only from Layer-P monitors evaluated by TLC on answers observed from the real code.")

ASSUME = [
    "LMDB and the serde (de)serialisation of TxLogEntry are trusted",
    "log entries are injected directly with WalletOutputBatch::save_tx_log_entry under the key (entry.parent_key_id, entry.id), as the wallet itself does",
    "timestamps are whole multiples of 1000 s after 2020-09-13T12:26:40Z; amounts are small integers",
    "readings of the field documentation: DESIGN.md Appendix B; where the documentation leaves room the monitors accept every reading (Must/May in spec/TxQuery.tla)",
]

# deviation of the code model  ->  the known-finding key that stands for it.  A deviation is
# switched on in the model (MC counter-examples, Layer M) while that key has status "known".
DEVIATIONS = {
    "CreationUpperBoundReadsMinConfirmed": "C19/Sound_max_creation_timestamp/adv[max_creation_timestamp]",
    "AdvancedIgnoresAccount": "C19/ActiveAccountOnly/adv[]",
}
ALL_FIELDS = ["min_id", "max_id", "exclude_cancelled", "include_outstanding_only", "include_confirmed_only",
              "include_sent_only", "include_received_only", "include_coinbase_only", "include_reverted_only",
              "min_amount", "max_amount", "min_creation_timestamp", "max_creation_timestamp",
              "min_confirmed_timestamp", "max_confirmed_timestamp", "limit", "sort_field", "sort_order"]

# MC configurations per tier: the cfg files in spec/ (the runner only rewrites their `Dev = ...` line)
TIERS = {
    "quick": ["TxQuery_quick.cfg"],
    "thorough": ["TxQuery_one_entry.cfg", "TxQuery_thorough.cfg"],
}
# a Limit failure (something that had to be returned is missing from a limited answer) is the same
# failure as Complete on the sub-query without the limit: a smaller sub-query that breaks either
# monitor is accepted as the minimal form of a Limit violation
SAME_FAILURE = {"Limit": ("Limit", "Complete")}
CHUNK = 4000          # trace lines per TLC trace-validation process (common.run_tlc keeps 20000 output lines)


def current_dev():
    known = {k["key"] for k in load_known() if k.get("property") == PROP and k.get("status") == "known"}
    return sorted(d for d, key in DEVIATIONS.items() if key in known)


def tla_set(xs):
    return "{" + ", ".join('"%s"' % x for x in xs) + "}"


def instantiate(cfg_name, d, dev):
    """copy spec/<cfg_name> into the work dir with the Dev constant of this run"""
    src = open(os.path.join(SPEC, cfg_name)).read()
    out, n = re.subn(r"(?m)^(\s*Dev\s*=\s*)\{[^}]*\}", lambda m: m.group(1) + tla_set(dev), src)
    if n != 1:
        raise ToolError("no Dev line in " + cfg_name)
    path = os.path.join(d, cfg_name)
    with open(path, "w") as f:
        f.write(out)
    return path


def cfg_constants(cfg_name):
    src = open(os.path.join(SPEC, cfg_name)).read()
    return {m.group(1): m.group(2).strip() for m in re.finditer(r"(?m)^\s*(\w+)\s*=\s*(.+)$", src) if m.group(1) != "Dev"}


def write_cfgs(d, dev):
    return instantiate("TraceTxQuery.cfg", d, dev), instantiate("TraceTxQueryP.cfg", d, dev)


# ------------------------------------------------------------------ queries
def fields_of(q):
    a = q.get("args")
    return sorted(a.keys()) if isinstance(a, dict) else []


def args_effective(q):
    return bool(q["hasargs"]) and q["id"] == -1 and q["slate"] == ""


def kind_of(q):
    if args_effective(q):
        return "adv"
    parts = []
    if q["id"] != -1:
        parts.append("id")
    if q["slate"] != "":
        parts.append("slate")
    if q["hasargs"]:
        parts.append("args")
    return "+".join(parts) if parts else "all"


def class_of(q):
    if args_effective(q):
        return "adv[%s]" % "+".join(fields_of(q))
    return kind_of(q)


def size_of(q):
    return (len(fields_of(q)) if q["hasargs"] else 0) + (1 if q["hasargs"] and not args_effective(q) else 0)


def sub_queries(q):
    """strictly smaller queries: the proper subsets of the supplied fields (advanced; for more
    than six fields only the subsets of at most two), or the same look-up without the (ignored)
    query_args (legacy)"""
    out = []
    if args_effective(q):
        fs = fields_of(q)
        n = len(fs)
        for mask in range(0, (1 << n) - 1):
            # queries with many fields (defaults + one): only the sub-queries of at most two fields
            if n > 6 and bin(mask).count("1") > 2:
                continue
            sub = {fs[i]: q["args"][fs[i]] for i in range(n) if mask >> i & 1}
            out.append(dict(q, args=sub if sub else []))
    elif q["hasargs"]:
        out.append(dict(q, hasargs=False, args=[]))
    return out


def ckey(log, active, q):
    return json.dumps([log, active, q], sort_keys=True)


# ------------------------------------------------------------------ run + validate
def run_cases(cases, tag, cfgs):
    """cases: list of dict(log, active, q).  Executes them on the real code and validates the
    trace (in chunks, one TLC process each).  Returns (viol: case index -> {monitor: info},
    nonconfs, path of the ndjson trace, number of trace lines)"""
    groups = collections.OrderedDict()
    for i, c in enumerate(cases):
        k = json.dumps(c["log"], sort_keys=True)
        groups.setdefault(k, {"log": c["log"], "cases": []})["cases"].append({"c": i, "active": c["active"], "q": c["q"]})
    for g in groups.values():
        g["cases"].sort(key=lambda x: x["active"])
    nd = replay("replay_query", {"groups": list(groups.values())}, PROP + "_" + tag)
    # split into chunks, each starting with the `log` line that is in force
    d = os.path.dirname(nd)
    chunks, cur, curlog, n = [], [], None, 0
    with open(nd) as f:
        for line in f:
            if not line.strip():
                continue
            n += 1
            is_log = line.startswith('{"b":') and '"ev":"log"' in line[:200]
            if is_log:
                curlog = line
            if len(cur) >= CHUNK and not is_log:
                chunks.append(cur)
                cur = [curlog] if curlog else []
            cur.append(line)
    if cur:
        chunks.append(cur)
    if n != len(cases) + len(groups):
        raise ToolError("replay_query recorded %d lines for %d cases on %d logs" % (n, len(cases), len(groups)))
    paths = []
    for i, ch in enumerate(chunks):
        p = os.path.join(d, "chunk%04d.ndjson" % i)
        with open(p, "w") as f:
            f.writelines(ch)
        paths.append(p)
    tv, tvp = cfgs

    def one(ip):
        i, p = ip
        return validate_trace("TraceTxQuery.tla", tv, p, "%s_%s_%04d" % (PROP, tag, i), cfg_fallback=tvp, timeout=1500)

    viol, nonconfs = {}, []
    with concurrent.futures.ThreadPoolExecutor(max_workers=max(1, JOBS)) as ex:
        for (viols, ncs, m_ok, _) in ex.map(one, list(enumerate(paths))):
            for v in viols:
                viol.setdefault(v["c"], {})[v["m"]] = v.get("info")
            nonconfs += ncs
    return viol, nonconfs, nd, n


def observed_of(nd, wanted):
    """the recorded lines of the wanted case ids"""
    out = {}
    if not wanted:
        return out
    with open(nd) as f:
        for line in f:
            if '"ev":"query"' not in line:
                continue
            e = json.loads(line)
            if e.get("c") in wanted:
                out[e["c"]] = e
    return out


def mc_and_gen(cfg, dev, d, timeout, tier):
    name = cfg.replace(".cfg", "")
    path = instantiate(cfg, d, dev)
    # every CASE line is wanted (no sampling): common.run_tlc streams them into r["printed"]
    r = run_tlc("MCTxQuery.tla", path, "mc_%s_%s_%s" % (PROP, tier, name), extra=["-seed", str(seed()), "-continue"], timeout=timeout,
                keep_tags=("CASE",), max_keep=10 ** 9)
    bad = sorted(set(x for t in r["violated"] for x in t if x))
    if not r["completed"]:
        log(re.sub(r'(?m)^<<"CASE".*$\n', "", r["out"])[-3000:])
        raise ToolError("TLC failed on MCTxQuery %s" % cfg)
    if bad:
        log(re.sub(r'(?m)^<<"CASE".*$\n', "", r["out"])[:6000])
        raise ToolError("the specification is inconsistent: %s violated in MCTxQuery (%s) - the reference, the repaired code model and the monitors disagree" % (bad, cfg))
    cases = parse_printed(r["printed"]["CASE"], "CASE")
    if len(cases) != r["printed_counts"]["CASE"]:
        raise ToolError("could not parse %d CASE lines" % (r["printed_counts"]["CASE"] - len(cases)))
    stat = {"cfg": cfg, "constants": cfg_constants(cfg), "dev": dev, "seed": seed(), "states": r["states"], "transitions": r["transitions"],
            "depth": r["depth"], "completed": r["completed"], "cases_emitted": len(cases), "wall_s": round(r["wall_s"], 1),
            "invariants_checked": ["Inv_Reference", "Inv_Repaired", "Inv_Readings", "Inv_CodeModel"]}
    return stat, cases


def run(tier, replay_path, t0):
    build_s = build_harness(["replay_query"])
    dev = current_dev()
    d = workdir("cfg_%s_%s" % (PROP, tier))
    cfgs = write_cfgs(d, dev)
    log("  code model deviations switched on (known findings pending a fix): %s" % (dev or "none"))

    stats, cases = [], []
    if replay_path:
        info = json.load(open(replay_path))["info"]
        cases = [dict(log=info["log"], active=info["active"], q=info["q"], mv=[], disc=[])]
    else:
        for cfg in TIERS[tier]:
            st, cs = mc_and_gen(cfg, dev, d, 1200, tier)
            log("  MC %s: %d states, %d transitions, %d cases emitted, %d model counter-examples (%.0fs)" % (
                cfg, st["states"], st["transitions"], len(cs), sum(1 for c in cs if c["mv"]), st["wall_s"]))
            stats.append(st)
            cases += cs
    # the internal outstanding-only look-up is not reachable through the owner API: model only
    model_only = [c for c in cases if c["q"].get("outstanding")]
    cases = [c for c in cases if not c["q"].get("outstanding")]

    # vacuity: every field must discriminate somewhere (dropping it changes the reference answer)
    disc = collections.Counter()
    kinds = collections.Counter()
    nfields = collections.Counter()
    model_cex = collections.Counter()
    for c in cases:
        for f in c.get("disc", []):
            disc[f] += 1
        kinds[kind_of(c["q"])] += 1
        if args_effective(c["q"]):
            nfields[len(fields_of(c["q"]))] += 1
        for m in c.get("mv", []):
            model_cex[m] += 1
    if not replay_path:
        dead = [f for f in ALL_FIELDS if disc[f] == 0]
        if dead:
            raise ToolError("vacuous suite: no generated case on which %s discriminates" % dead)

    t1 = time.time()
    viol, nonconfs, nd, nlines = run_cases(cases, tier + "_main", cfgs)
    log("  %d cases on %d logs executed on the real code and validated (%.0fs): %d cases break a monitor, %d Layer-M mismatches" % (
        len(cases), len(set(json.dumps(c["log"], sort_keys=True) for c in cases)), time.time() - t1, len(viol), len(nonconfs)))

    # model counter-examples vs. the real code (what Layer M says, per monitor)
    real_cnt = collections.Counter(m for ms in viol.values() for m in ms)
    agree = sum(1 for i, c in enumerate(cases) if sorted(c.get("mv", [])) == sorted(viol.get(i, {}).keys()))

    # KEY: file every violation under its smallest violating sub-query
    keys = {}
    if viol:
        t2 = time.time()
        subs, index = [], {}
        for i in viol:
            c = cases[i]
            for sq in sub_queries(c["q"]):
                k = ckey(c["log"], c["active"], sq)
                if k not in index:
                    index[k] = len(subs)
                    subs.append(dict(log=c["log"], active=c["active"], q=sq))
        sviol = {}
        if subs:
            sviol, _, snd, _ = run_cases(subs, tier + "_shrink", cfgs)
        log("  %d sub-queries of the violating cases re-run to find minimal inputs (%.0fs)" % (len(subs), time.time() - t2))
        best = {}      # key -> (size, |log|, case dict, monitor info)
        for i, ms in viol.items():
            c = cases[i]
            for m, info in ms.items():
                cand = [(size_of(c["q"]), class_of(c["q"]), c["q"], info, m)]
                for sq in sub_queries(c["q"]):
                    j = index[ckey(c["log"], c["active"], sq)]
                    for m2 in SAME_FAILURE.get(m, (m,)):
                        if m2 in sviol.get(j, {}):
                            cand.append((size_of(sq), class_of(sq), sq, sviol[j][m2], m2))
                            break
                cand.sort(key=lambda x: (x[0], x[1]))
                sz, cls, mq, minfo, m = cand[0]
                key = "%s/%s/%s" % (PROP, m, cls)
                rank = (len(c["log"]), sz, len(ms))
                if key not in keys:
                    keys[key] = {"count": 0}
                    best[key] = None
                keys[key]["count"] += 1
                if best[key] is None or rank < best[key]:
                    best[key] = rank
                    keys[key].update({"monitor": m, "log": c["log"], "active": c["active"], "q": mq, "observed": minfo,
                                      "found_by_case": {"q": c["q"]}})
    known, new = classify(PROP, keys)

    if nonconfs:
        log("NONCONFORMANCE: %d observed answers differ from the code model RunCode(dev=%s) (Layer M); first: %s" % (
            len(nonconfs), dev, json.dumps(nonconfs[0])[:600]))
        log("  (the deviations of the code model follow the status of the keys %s in known_findings: after committing a fix set its keys to \"fixed\")" % sorted(DEVIATIONS.values()))
    samples_ids = list(range(0, len(cases), max(1, len(cases) // 6)))[:6]
    obs = observed_of(nd, set(samples_ids))
    samples = [{"log": cases[i]["log"], "active": cases[i]["active"], "q": cases[i]["q"],
                "returned": [[x["acct"], x["id"]] for x in obs.get(i, {}).get("ret", [])],
                "monitors_broken": sorted(viol.get(i, {}).keys())} for i in samples_ids]
    cov = {
        "states": sum(s["states"] for s in stats) or 1,
        "transitions": sum(s["transitions"] for s in stats) or 1,
        "traces_validated_against_impl": len(cases),
        "samples": samples,
        "mc_configs": stats,
        # every MC configuration was explored completely, but the logs of more than one entry are a
        # seeded sample of the log space, so the run as a whole is not an exhaustive enumeration
        "exhaustive": False,
        "mc_configs_completed": bool(stats) and all(s["completed"] for s in stats),
        "exhaustive_subspaces": [s["cfg"] for s in stats if s["constants"].get("ExhaustOne") == "TRUE"],
        "logs": len(set(json.dumps(c["log"], sort_keys=True) for c in cases)),
        "trace_lines_validated": nlines,
        "cases_by_kind": dict(kinds),
        "advanced_cases_by_number_of_fields": {str(k): v for k, v in sorted(nfields.items())},
        "cases_where_field_discriminates": {f: disc[f] for f in ALL_FIELDS},
        "model_only_cases_outstanding_lookup": len(model_only),
        "code_model_deviations": dev,
        "model_counter_examples_by_monitor": dict(model_cex),
        "real_code_violations_by_monitor": dict(real_cnt),
        "cases_where_model_and_code_break_the_same_monitors": agree,
        "layer_m_nonconformances": len(nonconfs),
        "layer_m_first": nonconfs[:3],
        "violation_keys": {k: v["count"] for k, v in keys.items()},
        "harness_build_s": round(build_s, 1),
    }
    finish(PROP, tier, "model_checking", cov, ASSUME, t0, known, new)
