"""Checks of the Wallet family (C02..C07, C15, C17, ...): one pipeline
  MC   tlc model-checks the bounded MCWallet config(s) with the property's invariants
  GEN  the same run prints one behaviour per distinct state (shortest history)
  TV   the behaviours run on the real code (harness/replay_wallet) and TLC
       validates the recorded trace under TraceWallet.tla: Layer-P monitors decide
       the verdict, Layer-M mismatches are reported as NONCONFORMANCE only."""
import json, os, random, re, time
from common import *


def prefix_maximal(behs):
    """drop behaviours that are a proper prefix of another one"""
    keyed = sorted((json.dumps(b, sort_keys=True), b) for b in behs)
    ser = [[json.dumps(e, sort_keys=True) for e in b] for _, b in keyed]
    keep = []
    seen = set()
    for s in ser:
        for i in range(1, len(s)):
            seen.add(tuple(s[:i]))
    out = []
    for s, (_, b) in zip(ser, keyed):
        if tuple(s) not in seen:
            out.append(b)
    return out


def features(b):
    """ordered pairs of event kinds with their slate/wallet relation: what a behaviour exercises"""
    f = set()
    ks = []
    b_ = b
    active = {}
    opened = {}
    for e in b:
        if e.get("ev") == "set_active":
            active[e.get("w", "")] = e.get("label", "")
        k = e.get("ev", "") + ":" + str(e.get("stage", "")) + ("L" if e.get("late") else "") + ("T" if e.get("ttlb") else "") + (("nchange%d" % e["nchange"]) if e.get("nchange") else "")
        # the account context matters (multi-account interplay): which account is active, which is named
        k += "@" + active.get(e.get("w", ""), "") + (">" + e["src"] if e.get("src") else "") + (">>" + e["dest"] if e.get("dest") else "") + (":" + e["tamper"] if e.get("tamper") else "")
        if e.get("scls") and e.get("ev") in ("lock", "finalize", "cancel", "init_send", "process_invoice", "refresh", "scan"):
            k += "{" + e["scls"] + "}"      # the situation of the step's slate in the acting wallet
        if e.get("kcls"):
            k += "[names " + e["kcls"] + "]"      # the kind of record a request names
        if e.get("mok") is True:
            k += "/ok"          # the model's verdict on the operation itself (not on a refresh it embeds)
        elif e.get("mok") is False:
            k += "/refused"
        if e.get("eff") == 0:
            k += "!noeffect"
        elif isinstance(e.get("eff"), int) and e["eff"] > 1:
            k += "#%d" % e["eff"]
        if e.get("ev") == "cancel" and (e.get("id", 0) == -1 or e.get("by")):
            k += "/byslate"
        ks.append((k, e.get("sl", e.get("id", "")), e.get("w", "")))
        # in what kind of wallet the step is taken (statuses / entry types present, from the model)
        for x in e.get("ost") or []:
            f.add(("ost", k, x))
        for x in e.get("tty") or []:
            f.add(("tty", k, x))
        if isinstance(e.get("pend"), int):
            f.add(("pend", k, e["pend"]))
        # how many OTHER slates are open (started, not cancelled) when this happens
        # (= slates with a log entry in THIS wallet: locked, received or invoiced there)
        sl = e.get("sl") or e.get("by") or ""
        mine = opened.setdefault(e.get("w", ""), set())
        others = len([x for x in mine if x != sl])
        f.add(("ctx", k, min(others, 2)))
        if sl:
            if e.get("ev") == "cancel":
                mine.discard(sl)
            elif e.get("ev") in ("issue_invoice", "receive", "lock") or (e.get("ev") == "finalize" and e.get("late")):
                mine.add(sl)
    for i in range(len(ks)):
        f.add(("1", ks[i][0]))
        for j in range(i + 1, len(ks)):
            same = ks[i][1] == ks[j][1] and ks[i][1] != ""
            f.add((ks[i][0], ks[j][0], same, j == i + 1))
            if same and ks[i][0] == ks[j][0]:
                # a repeated step on the same slate: what happened in between matters
                # (confirmed meanwhile? cancelled meanwhile?)
                between = frozenset(b.get("ev") for b in b_[i + 1:j]) & {"mine", "refresh", "cancel", "finalize", "post", "fork", "scan"}
                f.add(("rep", ks[i][0], tuple(sorted(between))))
    return f


CLASS_STATS = {}
FOCUS = []          # substrings: features that mention one of them are covered first (set per check)


def select_behaviours(behs, n, rnd):
    """greedy cover of the features (the check's focus features first), then a random fill up to n"""
    if len(behs) <= n:
        return list(behs), 0
    pool = list(behs)
    rnd.shuffle(pool)
    if len(pool) > 6000:
        if FOCUS:
            # keep every behaviour that shows a focus feature, fill with the others
            isf = [any(any(x in str(ft) for x in FOCUS) for ft in features(b)) for b in pool]
            pool = [b for b, y in zip(pool, isf) if y][:4000] + [b for b, y in zip(pool, isf) if not y]
        pool = pool[:6000]
    feats = [features(b) for b in pool]
    covered = set()
    chosen = []
    remaining = set(range(len(pool)))
    # phase 0: every CLASS of step the model reaches - kind of step with its stage, account context, verdict, effect size,
    # class of named record, situation of its slate - is exercised by at least one behaviour, whatever histories TLC's
    # workers happened to print (class-level coverage does not depend on the draw)
    ones = [set(ft for ft in fs if ft[0] in ("1", "pend")) for fs in feats]      # (class of step, and with how many other transactions pending)
    cov1 = set()
    while len(chosen) < (2 * n) // 3 and remaining:
        best, gain = None, 0
        for i in remaining:
            g = len(ones[i] - cov1)
            if g > gain:
                best, gain = i, g
        if best is None:
            break
        chosen.append(best)
        cov1 |= ones[best]
        covered |= feats[best]
        remaining.discard(best)
    if FOCUS:
        ffeats = [set(ft for ft in fs if any(x in str(ft) for x in FOCUS)) for fs in feats]
        while len(chosen) < (5 * n) // 6 and remaining:
            best, gain = None, 0
            for i in remaining:
                g = len(ffeats[i] - covered)
                if g > gain:
                    best, gain = i, g
            if best is None:
                break
            chosen.append(best)
            covered |= feats[best]
            remaining.discard(best)
    while len(chosen) < n and remaining:
        best, gain = None, 0
        for i in remaining:
            g = len(feats[i] - covered)
            if g > gain:
                best, gain = i, g
        if best is None:
            break
        chosen.append(best)
        covered |= feats[best]
        remaining.discard(best)
    ncover = len(chosen)
    # how much of the model's step classes the chosen behaviours exercise (reported in the evidence)
    all1 = set().union(*ones) if ones else set()
    got1 = set().union(*[ones[i] for i in chosen]) if chosen else set()
    CLASS_STATS.update({"step_classes_in_pool": len(all1), "step_classes_replayed": len(got1)})
    rest = list(remaining)
    rnd.shuffle(rest)
    chosen += rest[: max(0, n - len(chosen))]
    return [pool[i] for i in chosen], ncover


def mc_and_gen(cfgs, tier, timeout):
    """run each MC config; returns (stats, behaviours, cex behaviours)"""
    stats, behs, cex = [], [], []
    for cfg in cfgs:
        sim = None
        if "@sim=" in cfg:
            # a configuration too large to enumerate: TLC random walks (-simulate), every
            # invariant / action property is still evaluated on every state / step visited
            cfg, spec_ = cfg.split("@sim=")
            n, d = spec_.split("x")
            sim = (int(n), int(d))
            r = run_tlc("MCWallet.tla", cfg, "mc_" + cfg.replace(".cfg", "") + "_sim", timeout=timeout, workers=4,
                        simulate="num=%d" % sim[0], extra=["-depth", str(sim[1]), "-seed", str(seed())], prefer=tuple(FOCUS))
            m = re.search(r"Progress: (\d+) states checked, (\d+) traces generated", r["out"])
            if m:
                r["states"], r["transitions"] = int(m.group(1)), int(m.group(1))
            r["completed"] = False
            r["error"] = r["rc"] != 0
        else:
            r = run_tlc("MCWallet.tla", cfg, "mc_" + cfg.replace(".cfg", ""), timeout=timeout, prefer=tuple(FOCUS))
        if r["error"] and not r["completed"] and r["rc"] in (124, 137) and r["wall_s"] >= timeout - 5 and r["states"] > 0 and not r["violated"]:
            # the time budget of the exploration ran out: what was explored and printed is used,
            # the evidence says the bounded space was not exhausted
            log("  MC %s: INCOMPLETE - time budget (%ds) exhausted after %d distinct states" % (cfg, timeout, r["states"]))
        elif r["error"] and not r["completed"]:
            log(r["out"][-3000:])
            raise ToolError("TLC failed on " + cfg)
        b = parse_printed(r["printed"]["REPLAY"], "REPLAY")
        c = parse_printed(r["printed"]["CEX"], "CEX")
        # the initial world of this configuration travels with its behaviours
        m = re.search(r"(?m)^\s*NFund\s*=\s*(\d+)", open(os.path.join(SPEC, cfg)).read())
        if m:
            su = {"ev": "setup", "nfund": int(m.group(1))}
            if re.search(r"(?m)^\s*FundAcct2\s*=\s*TRUE", open(os.path.join(SPEC, cfg)).read()):
                su["fund2"] = True
            b = [[su] + x for x in b]
            for x in c:
                if isinstance(x.get("hist"), list):
                    x["hist"] = [su] + x["hist"]
        stats.append({"cfg": cfg, "mode": ("simulation num=%dx4 depth=%d" % sim) if sim else "exhaustive (bounded)", "states": r["states"], "transitions": r["transitions"], "depth": r["depth"],
                      "completed": r["completed"], "violated": sorted(set(x.get("inv", "?") for x in c)),
                      "behaviours_emitted": r["printed_counts"]["REPLAY"], "cex": r["printed_counts"]["CEX"], "wall_s": round(r["wall_s"], 1),
                      "action_coverage": r["coverage"]})
        behs += b
        cex += c
        log("  MC %s: %d distinct states, %d transitions, depth %d, %d behaviours, %d model counter-examples (%.0fs)" % (
            cfg, r["states"], r["transitions"], r["depth"], len(b), len(c), r["wall_s"]))
    return stats, behs, cex


# monitors whose violation key also names the class of situation (the info field), so that a new
# kind of violation is not taken for a listed finding of the same monitor
INFO_KEYED = {"ForeignOnlyAdds"}


def judge(prop, ndjson, tag):
    viols, nonconfs, m_ok, _ = validate_trace("TraceWallet.tla", "TraceWallet.cfg", ndjson, tag, cfg_fallback="TraceWalletP.cfg")
    mine = [v for v in viols if v["p"] == prop]
    # first occurrence per (behaviour, monitor)
    first = {}
    for v in sorted(mine, key=lambda v: v["line"]):
        first.setdefault((v["b"], v["m"]), v)
    keys = {}
    for (b, m), v in first.items():
        key = "%s/%s/%s" % (prop, m, v["ev"])
        if m in INFO_KEYED and v["ev"] == "finalize" and v.get("info"):
            key += ":" + str(v["info"])
        if key not in keys:
            keys[key] = {"behaviour": b, "line": v["line"], "info": v.get("info", ""), "count": 0}
        keys[key]["count"] += 1
    others = {}
    for v in viols:
        if v["p"] != prop:
            others[v["p"] + "/" + v["m"]] = others.get(v["p"] + "/" + v["m"], 0) + 1
    return keys, nonconfs, m_ok, others


def attach_replays(keys, events, setup):
    """for each violated key, attach the behaviour (event list) that shows it"""
    by_b = {}
    for e in events:
        by_b.setdefault(e.get("b"), []).append(e)
    for k, info in keys.items():
        evs = by_b.get(info["behaviour"], [])
        info["setup"] = next((e["setup"] for e in evs if e.get("ev") == "reset" and "setup" in e), setup)
        info["events"] = [{x: e[x] for x in e if x != "obs"} for e in evs]


def decorate(behs, rnd, params):
    """environment events the model treats as stuttering are woven into a share of the generated
    behaviours: a restart of a wallet process (reopen) and a node outage around a refresh; the trace
    spec judges them (TReopen: the store is found as left; a refresh during an outage changes nothing)"""
    share = params.get("decorate_share", 0.34)
    out = []
    # ... and a share of the behaviours is driven through the structs and listeners the wallet binary serves
    # (grin_wallet_api::Owner / Foreign, the foreign JSON-RPC listener) instead of libwallet::api_impl
    api_share = params.get("api_share", 0.5)
    behs2 = []
    for b in behs:
        if b and rnd.random() < api_share:
            if b[0].get("ev") == "setup":
                b = [dict(b[0], api=True)] + list(b[1:])
            else:
                b = [{"ev": "setup", "api": True}] + list(b)
        behs2.append(b)
    behs = behs2
    # ... and in a share of the behaviours w1 is a MASKED wallet driven with its right token ("with the right token it
    # behaves exactly like an unmasked wallet": every monitor and the refinement to the model apply unchanged)
    mshare = params.get("masked_share", 0.25)
    behs5 = []
    for b in behs:
        if b and rnd.random() < mshare:
            if b[0].get("ev") == "setup":
                b = [dict(b[0], masked=True)] + list(b[1:])
            else:
                b = [{"ev": "setup", "masked": True}] + list(b)
        behs5.append(b)
    behs = behs5
    # ... and the balance figures are asked for under different minimum-confirmation settings (the refresh itself does
    # not depend on the setting, the partition of the values into spendable / awaiting confirmation does)
    if params.get("vary_minconf", True):
        behs3 = []
        for b in behs:
            b = [dict(e, minconf=rnd.choice([0, 1, 1, 2, 4])) if e.get("ev") == "refresh" and "minconf" not in e else e for e in b]
            behs3.append(b)
        behs = behs3
    # ... and a share of the cancels is called as an API user calls it, with no refresh of the driver's before it
    rshare = params.get("raw_cancel_share", 0.25)
    behs6 = []
    for b in behs:
        behs6.append([dict(e, raw=True) if e.get("ev") == "cancel" and rnd.random() < rshare else e for e in b])
    behs = behs6
    # ... and somebody holding the rewind hash of a wallet's seed looks at the chain (view wallet: reads only)
    vshare = params.get("view_share", 0.25)
    behs4 = []
    for b in behs:
        if b and rnd.random() < vshare:
            lo = 1 if b[0].get("ev") == "setup" else 0
            pos = rnd.randrange(lo, len(b) + 1)
            b = list(b[:pos]) + [{"ev": "view_scan", "w": rnd.choice(["w1", "w2"]), "start": 1}] + list(b[pos:])
        behs4.append(b)
    behs = behs4
    for b in behs:
        if not b or rnd.random() >= share:
            out.append(b)
            continue
        b2 = list(b)
        lo = 1 if b2[0].get("ev") == "setup" else 0
        kind = rnd.choice(["reopen", "reopen", "outage"])
        ws = sorted(set(e.get("w") for e in b2 if e.get("w") in ("w1", "w2"))) or ["w1"]
        if kind == "reopen":
            pos = rnd.randrange(lo, len(b2) + 1)
            w = rnd.choice(ws)
            ins = [{"ev": "reopen", "w": w}]
            # the active account is per process: restore it so that the rest of the behaviour means the same
            act = None
            for e in b2[:pos]:
                if e.get("ev") == "set_active" and e.get("w") == w:
                    act = e.get("label")
            if act and act != "default":
                ins.append({"ev": "set_active", "w": w, "label": act})
            b2[pos:pos] = ins
        else:
            pos = rnd.randrange(lo, len(b2) + 1)
            w = rnd.choice(ws)
            b2[pos:pos] = [{"ev": "node_down"}, {"ev": "refresh", "w": w}, {"ev": "node_up"}]
        out.append(b2)
    return out


def run(prop, tier, params, t0):
    global FOCUS
    FOCUS = list(params.get("focus", []))
    rnd = random.Random(seed())
    build_s = build_harness(["replay_wallet"])
    cfgs = params["quick_cfgs"] if tier == "quick" else params["thorough_cfgs"]
    nbeh = params["quick_n"] if tier == "quick" else params["thorough_n"]
    stats, behs, cex = mc_and_gen(cfgs, tier, params.get("mc_timeout", 1500))
    all_b = prefix_maximal(behs)
    chosen, ncover = select_behaviours(all_b, nbeh, rnd)
    class_stats = dict(CLASS_STATS)
    # model counter-examples are always replayed on the real code
    cexb = []
    seen = set()
    for c in cex:
        s = json.dumps(c.get("hist"), sort_keys=True)
        if s not in seen and len(cexb) < 40:
            seen.add(s)
            cexb.append(c["hist"])
    extra = params.get("extra_behaviours", [])
    behaviours = cexb + extra + decorate(chosen, rnd, params)
    setup = params["setup"]
    log("  replaying %d behaviours on the real code (%d model counter-examples, %d scripted, %d of %d generated)" % (
        len(behaviours), len(cexb), len(extra), len(chosen), len(all_b)))
    nd = replay("replay_wallet", {"setup": setup, "behaviours": behaviours}, prop)
    events = read_ndjson(nd)
    keys, nonconfs, m_ok, others = judge(prop, nd, prop)
    attach_replays(keys, events, setup)
    unrep = max([e.get("obs", {}).get("unrep", 0) for e in events] + [0])
    panics = [e for e in events if e.get("res") == "panic"]
    if nonconfs:
        log("NONCONFORMANCE: %d observed steps are not steps of the model (Layer M); first: %s" % (len(nonconfs), nonconfs[0]))
    if unrep:
        log("NONCONFORMANCE: %d values were not whole units" % unrep)
    # optional: crash/fault enumeration of some of the generated operations, judged for THIS property
    ncrash = params.get("crash_cases_quick" if tier == "quick" else "crash_cases_thorough", 0)
    crash_cov = {}
    if params.get("replay_case") or (ncrash and params.get("quick_cfgs")):
        ops = set(params.get("crash_ops", []))
        cand = [b for b in all_b + [b[:i + 1] for b in all_b for i in range(len(b) - 1)] if b and b[-1].get("ev") in ops]
        uniq = {}
        for b in cand:
            uniq.setdefault(json.dumps(b, sort_keys=True), b)
        cand = [uniq[k] for k in sorted(uniq)]
        groups = {}
        for b in cand:
            e = b[-1]
            groups.setdefault((e.get("ev"), e.get("stage", ""), bool(e.get("late")), e.get("w", "")), []).append(b)
        per = max(1, ncrash // max(1, len(groups)))
        pick = []
        for g in sorted(groups, key=str):
            c, _ = select_behaviours(groups[g], per, rnd)
            pick += c
        cases = [{"prefix": b[:-1], "op": b[-1], "modes": ["crash", "fail"]} for b in pick[:ncrash + len(groups)]]
        if params.get("replay_case"):
            cases = [params["replay_case"]]
        build_harness(["replay_crash"])
        log("  crash/fault enumeration of %d generated operations, judged for %s" % (len(cases), prop))
        nd2 = replay("replay_crash", {"setup": setup, "cases": cases}, prop + "_crash")
        ev2 = read_ndjson(nd2)
        keys_c, nonconfs_c, _, _ = judge(prop, nd2, prop + "_crash")
        for k, info in keys_c.items():
            if not k.split(":")[0].endswith("/crash"):
                # the prefix and the complete run of the operation are driven differently here (no separate
                # refresh before a cancel): only the interrupted runs are judged in this part
                continue
            b = info["behaviour"]
            info["case"] = cases[b] if isinstance(b, int) and b < len(cases) else None
            info["setup"] = setup
            keys[k + ":" + str(info.get("info", "")).replace(" ", "_")] = info
        crashes = [e for e in ev2 if e.get("ev") == "crash"]
        crash_cov = {"crash_cases": len(cases), "crash_points_executed": len(crashes),
                     "crash_points_with_next_key_probe": sum(1 for e in crashes if e.get("next_key"))}
    known, new = classify(prop, keys)
    n_events = len(events)
    kinds = {}
    for e in events:
        kinds[e["ev"] + ":" + e.get("res", "")] = kinds.get(e["ev"] + ":" + e.get("res", ""), 0) + 1
    cov = {
        "states": sum(s["states"] for s in stats),
        "transitions": sum(s["transitions"] for s in stats),
        "traces_validated_against_impl": len(behaviours),
        "samples": [[{x: e[x] for x in e if x not in ("obs",)} for e in events if e.get("b") == 0][:12]],
        "mc_configs": stats,
        "exhaustive": all(s["completed"] for s in stats),
        "behaviours_generated": len(all_b),
        "step_classes": class_stats,
        "behaviours_replayed": len(behaviours),
        "events_validated": n_events,
        "event_kinds": kinds,
        "layer_m_nonconformances": len(nonconfs),
        "layer_m_first": nonconfs[:3],
        "monitor_failures_other_properties": others,
        "panics_observed": len(panics),
        "harness_build_s": round(build_s, 1),
    }
    cov.update(crash_cov)
    finish(prop, tier, "model_checking", cov, params["assumptions"], t0, known, new)
