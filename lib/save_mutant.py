"""save_mutant.py <ID> <n> <caught_by (comma list or 'none')> <notes...> : keep a confirmed seeded change under seeded/<ID>-<n>/"""
import json, os, shutil, sys, glob
pid, n, caught = sys.argv[1], sys.argv[2], sys.argv[3]
notes = " ".join(sys.argv[4:])
src = "/tmp/mw_%s_%s_out" % (pid, n)
dst = "/verif/seeded/%s-%s" % (pid, n)
os.makedirs(dst, exist_ok=True)
meta = json.load(open(os.path.join(src, "meta.json")))
shutil.copy(os.path.join(src, "patch.diff"), dst)
for f in glob.glob(os.path.join(src, "*")):
    b = os.path.basename(f)
    if b not in ("patch.diff", "meta.json", "TASK.txt") and os.path.isfile(f) and os.path.getsize(f) < 200000:
        shutil.copy(f, dst)
meta["breaks_property"] = pid
meta["caught_by"] = [] if caught == "none" else caught.split(",")
meta["what_was_run"] = ("confirmed in the scratch worktree: demo fails with the change and passes without it; the agent ran the pinned "
                        "suite with the change (63 passed); the change was applied to a private copy of /repo and the named checks were run. " + notes)
json.dump(meta, open(os.path.join(dst, "meta.json"), "w"), indent=1)
print("saved", dst)
