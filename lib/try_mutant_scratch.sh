#!/bin/bash
# lib/try_mutant_scratch.sh <ID> <n> "<checks>" [tier] [skipdemo] : like try_mutant.sh but against a private
# copy of /repo and /verif under /tmp/sx (so that /repo is never touched while other runs use it)
ID=$1; N=$2; CHECKS=$3; TIER=${4:-quick}
WT=/tmp/mw_${ID}_${N}; OUT=${WT}_out; SX=${SX:-/tmp/sx}
mkdir -p $SX
rsync -a --delete --exclude target --exclude .git /repo/ $SX/repo/
rsync -a --delete --exclude harness/target --exclude work --exclude .git --exclude evidence /verif/ $SX/verif/
mkdir -p $SX/verif/evidence $SX/verif/work
sed -i "s#path = \"/repo/#path = \"$SX/repo/#g" $SX/verif/harness/Cargo.toml
DEMO=$(python3 -c "import json;print(json.load(open('$OUT/meta.json'))['demo_cmd'])")
if [ "$5" != "skipdemo" ]; then
  echo "== demo with change:"; (cd $WT && timeout 1500 bash -c "$DEMO" 2>&1 | grep -E "test result|Summary|panicked at" | tail -3)
  (cd $WT && git apply -R $OUT/patch.diff)
  echo "== demo without change:"; (cd $WT && timeout 1500 bash -c "$DEMO" 2>&1 | grep -E "test result|Summary|panicked at" | tail -3)
  (cd $WT && git apply $OUT/patch.diff)
fi
(cd $SX/repo && patch -p1 --dry-run < $OUT/patch.diff > /dev/null) || { echo "patch does not apply"; exit 2; }
(cd $SX/repo && patch -p1 -s < $OUT/patch.diff)
for c in $CHECKS; do
  echo "== check $c ($TIER) on the seeded tree"
  (cd $SX/verif && timeout 3000 ./check $c --tier $TIER 2>&1 | grep -E "^VIOLATION|^  key|^KNOWN|^NONCONF|: ok|VIOLATIONS|TOOL-ERROR" | cut -c1-300 | head -14)
done
