"""C12 Secrets never leave the wallet in clear; signing nonces are never reused.

Two spec families, one verdict:
  SeedFile  spec/SeedFile.tla, MCSeedFile.tla, TraceSeedFile.tla + harness/src/bin/replay_seed
            TLC model-checks create_wallet / change_password / recover_from_mnemonic with a crash,
            a torn write or a failing file operation at every hook point (SeedRecoverable,
            WrongPwIsError, CompletedEffect) and prints every history as a crash schedule; the
            schedules run on the real DefaultLCProvider through the hook registry; both an
            independent opener and the code's opener inspect every wallet.seed* file under every
            password; TLC judges the recorded observations.
  Secrets   spec/Secrets.tla, MCSecrets.tla, TraceSecrets.tla + harness/src/bin/replay_secrets
            TLC explores all interleavings of the send / late-lock / self-send / invoice /
            self-invoice flows over the secrets state (NoClearSecret, FreshNonces) and prints the
            behaviours; they run on real wallets; after every step every file under the wallet
            directories and every wire form of every slate is searched for the real secret bytes
            and the public nonces / excesses handed out are collected; TLC judges."""
import json, os, random, time
from common import *
import wallet_checks

MANIFEST_ENTRY = dict(
    cat="model_checking", ref="DESIGN.md 2.8, 4 C12", engine="secrets-tla",
    text="TLC model-checks the seed-file life cycle (create_wallet, change_password, recover_from_mnemonic as step programs "
         "between the hook points of impls/src/lifecycle) with a crash, a torn write or a failing file operation at every "
         "boundary over histories of up to 3 calls, checking SeedRecoverable, WrongPwIsError and CompletedEffect in every "
         "reachable file state, and emits every history as a crash schedule; the schedules are executed on the real "
         "DefaultLCProvider through the hook registry with passwords {empty, ASCII, unicode, 1 KiB} and seeds of 16..32 bytes, "
         "every wallet.seed* file is opened with an independent PBKDF2-HMAC-SHA512 + ChaCha20-Poly1305 opener and with the "
         "code's opener under every password (and at every truncation length), and TLC judges the observations with the same "
         "predicates. TLC also explores every interleaving of the send / late-lock / self-send / invoice / self-invoice flows "
         "over the per-transaction secrets (stored contexts, what a slate carries) - including a third wallet that answers the same "
         "slate with a second valid reply which the finalizer is handed after it has finalized - checking NoClearSecret, FreshNonces, "
         "ContextConsumed (a finalized slate's private context is gone) and NonceSignsOnce (one nonce never signs two participant sets), and "
         "the generated behaviours run on real wallets: after every step every file under the wallet directories and every wire "
         "form of every slate is searched for the real seed, phrase and context secrets (raw, hex, base64, JSON-array), and no "
         "public nonce or excess may repeat across slate ids in the whole run; refinement (Layer M) ties both models to the code.",
    technique="TLC model checking of spec/MCSeedFile.tla and spec/MCSecrets.tla + TLC-generated crash schedules / behaviours "
              "replayed on the real code (harness replay_seed, replay_secrets) + TLC trace validation "
              "(spec/TraceSeedFile.tla, spec/TraceSecrets.tla)",
    note="Trusted: ring's ChaCha20-Poly1305 (used by the independent opener too; PBKDF2 is re-implemented over sha2), the file "
         "system below the hook points (rename/remove are atomic, a write is either absent, partial or complete), secp256k1. "
         "'Recoverable plaintext' is decided for the listed encodings of the exact secret bytes; XOR-masked storage of "
         "sec_key/sec_nonce is accepted as the code's design. Secrets of a context are those retrievable through "
         "get_private_context (pending transactions). The verdict comes only from Layer-P monitors evaluated by TLC.")

ASSUME = [
    "rename / remove_file are atomic; a crash during write_all leaves the file absent, partial or complete",
    "ring ChaCha20-Poly1305 is correct (oracle of the independent opener); PBKDF2-HMAC-SHA512 is re-implemented over sha2",
    "recoverable plaintext = the exact secret bytes in raw, hex, base64 or JSON-array form",
    "a pending transaction's secrets are the fields of the contexts get_private_context returns",
    "thread_rng values never collide by chance (2^-128)",
]

PW_KINDS = ["empty", "ascii", "unicode", "long"]
SEC_SETUP = {"nfund": 2, "pad": 3}


# ------------------------------------------------------------------ helpers
def validate(module, cfg, ndjson, tag, cfg_fallback):
    """trace validation; VIOL / NONCONF / CONSUMED lines are collected by tag (so that a run with very many
    Layer-M mismatches - e.g. after a change of the seed-file format - still yields a verdict).
    Returns (viols, nonconfs, number of nonconformances printed)"""
    def one(c, t):
        r = run_tlc(module, c, t, workers=1, env={"TRACE": ndjson}, timeout=1800, depth_first=True,
                    keep_tags=("VIOL", "NONCONF", "CONSUMED", "STUCK"), max_keep=50000)
        return r, r["printed_counts"]["CONSUMED"] > 0
    r, ok = one(cfg, "tv_" + tag)
    aborted = []
    if not ok:
        # Layer M evaluation aborted TLC (a model operator undefined on an observed state): a
        # nonconformance of its own; re-judge with Layer P alone
        aborted = [{"line": -1, "b": -1, "ev": "?", "what": "LayerM-evaluation-aborted"}]
        r1 = r
        r, ok = one(cfg_fallback, "tvp_" + tag)
        if not ok:
            log(r["out"][-3000:])
            raise ToolError("trace validation did not consume the trace")
        nonconfs = parse_printed(r1["printed"]["NONCONF"], "NONCONF") + aborted
        return parse_printed(r["printed"]["VIOL"], "VIOL"), nonconfs, r1["printed_counts"]["NONCONF"] + 1
    return parse_printed(r["printed"]["VIOL"], "VIOL"), parse_printed(r["printed"]["NONCONF"], "NONCONF"), r["printed_counts"]["NONCONF"]


def _viol_keys(viols, kind, inputs, extra_info):
    """first occurrence per (monitor, class) -> key dict; `inputs[b]` is the stimulus of behaviour b"""
    keys = {}
    for v in sorted(viols, key=lambda v: v["line"]):
        key = "C12/%s/%s" % (v["m"], v["cls"])
        k = keys.get(key)
        if k is None:
            evs = inputs[v["b"]] if 0 <= v["b"] < len(inputs) else []
            k = keys[key] = dict(kind=kind, behaviour=v["b"], line=v["line"], ev=v["ev"], info=v.get("info", ""), count=0,
                                 events=evs)
            k.update(extra_info)
        k["count"] += 1
    return keys


def _strip_sched(ev):
    """schedule event as the harness wants it (drop the model's prediction)"""
    return {k: ev[k] for k in ev if k not in ("res", "hits")}


def seed_features(b):
    f = set()
    ks = []
    for e in b:
        hook = e["hits"][e["inj"]["k"] - 1] if 0 < e["inj"]["k"] <= len(e["hits"]) else "-"
        ks.append("%s:%s@%s:%s:%s" % (e["ev"], e["inj"]["kind"], hook, e["res"], len(e["hits"])))
    for i, k in enumerate(ks):
        f.add(("1", k))
        if i + 1 < len(ks):
            f.add((k, ks[i + 1]))
    # password / seed relations between consecutive calls
    for i in range(len(b) - 1):
        a, c = b[i], b[i + 1]
        f.add(("pw", a["ev"], c["ev"], a.get("pw") == c.get("pw"), a.get("pw") == c.get("old"), a.get("new") == c.get("old"),
               a.get("seed") == c.get("seed")))
    return f


def cover_select(behs, n, rnd, feats_fn, pool_cap=8000):
    if len(behs) <= n:
        return list(behs), 0
    pool = list(behs)
    rnd.shuffle(pool)
    pool = pool[:pool_cap]
    feats = [feats_fn(b) for b in pool]
    covered, chosen, remaining = set(), [], set(range(len(pool)))
    while len(chosen) < n and remaining:
        best, gain = None, 0
        for i in remaining:
            g = len(feats[i] - covered)
            if g > gain:
                best, gain = i, g
        if best is None:
            break
        chosen.append(best)
        covered |= feats[best]
        remaining.discard(best)
    ncover = len(chosen)
    rest = list(remaining)
    rnd.shuffle(rest)
    chosen += rest[:max(0, n - len(chosen))]
    return [pool[i] for i in chosen], ncover


# ------------------------------------------------------------------ SeedFile
def seed_part(tier, rnd, extra_sched=None, only_extra=False, extra_trunc=None, b0=0):
    stats, scheds, cex = [], [], []
    # (config, number of schedules to replay; None = every one)
    plan = [("MC_C12_seed_quick.cfg", None), ("MC_C12_seed_quick3.cfg", 600)] if tier == "quick" else \
           [("MC_C12_seed_quick.cfg", None), ("MC_C12_seed_quick3.cfg", None), ("MC_C12_seed.cfg", 4000), ("MC_C12_seed4.cfg", 6000)]
    cfgs = [] if only_extra else [c for c, _ in plan]
    per_cfg = {}
    emitted = {}
    for cfg in cfgs:
        r = run_tlc("MCSeedFile.tla", cfg, "c12_" + cfg.replace(".cfg", ""), extra=["-continue"], timeout=900,
                    keep_tags=("SCHED", "CEX"), max_keep=30000)
        if r["error"] and not r["completed"]:
            log(r["out"][-3000:])
            raise ToolError("TLC failed on " + cfg)
        s = parse_printed(r["printed"]["SCHED"], "SCHED")
        c = parse_printed(r["printed"]["CEX"], "CEX")
        emitted[cfg] = r["printed_counts"]["SCHED"]
        per_cfg[cfg] = s
        cex += c
        stats.append({"cfg": cfg, "states": r["states"], "transitions": r["transitions"], "depth": r["depth"],
                      "completed": r["completed"], "violated": sorted(set(x for t in r["violated"] for x in t if x)),
                      "schedules_emitted": emitted[cfg], "cex": r["printed_counts"]["CEX"], "wall_s": round(r["wall_s"], 1)})
        log("  MC %s: %d distinct states, %d transitions, depth %d, %d schedules, %d model counter-examples (%.0fs)" % (
            cfg, r["states"], r["transitions"], r["depth"], emitted[cfg], r["printed_counts"]["CEX"], r["wall_s"]))
    chosen = []
    generated = 0
    if not only_extra:
        for cfg, n in plan:
            generated += emitted.get(cfg, 0)
            if n is None:
                chosen += per_cfg[cfg]
            else:
                sel, _ = cover_select(per_cfg[cfg], n, rnd, seed_features)
                chosen += sel
    cexb = []
    seen = set()
    for c in sorted(cex, key=lambda c: len(c.get("hist", []))):
        s = json.dumps(c.get("hist"), sort_keys=True)
        if s not in seen and len(cexb) < 20:
            seen.add(s)
            cexb.append(c["hist"])
    behaviours = [[_strip_sched(e) for e in b] for b in (cexb + (extra_sched or []) + chosen)]
    if tier == "quick":
        lens = sorted(set([16, 32] + [16 + (seed() + i * 5) % 17 for i in range(4)]))
        trunc = [[n, PW_KINDS[(seed() + i) % 4]] for i, n in enumerate(lens)]
    else:
        trunc = [[n, k] for n in range(16, 33) for k in PW_KINDS]
    if only_extra:
        trunc = extra_trunc or []
    log("  replaying %d crash schedules (%d model counter-examples, %d of %d generated) and %d truncation cases on the real code" % (
        len(behaviours), len(cexb), len(chosen), generated, len(trunc)))
    t1 = time.time()
    nd = replay("replay_seed", {"seed": seed(), "npws": 3, "b0": b0, "behaviours": behaviours, "trunc": trunc}, "C12_seed")
    events = read_ndjson(nd)
    t2 = time.time()
    viols, nonconfs, n_nc = validate("TraceSeedFile.tla", "TraceSeedFile.cfg", nd, "C12_seed", "TraceSeedFileP.cfg")
    log("  SeedFile: %d events recorded (%.0fs), validated by TLC (%.0fs): %d monitor failures, %d nonconformances" % (
        len(events), t2 - t1, time.time() - t2, len(viols), len(nonconfs)))
    keys = _viol_keys([v for v in viols if v["p"] == "C12"], "seed", behaviours + [[{"ev": "trunc", "case": t}] for t in trunc],
                      {"seed": seed()})
    # vacuity witnesses, measured on the recorded trace
    ops = [e for e in events if e["ev"] in ("create", "chpw", "recover")]
    inj = {}
    for e in ops:
        k = e["inj"]["k"]
        hook = e["hits"][k - 1] if 0 < k <= len(e["hits"]) else "-"
        inj["%s:%s@%s" % (e["ev"], e["inj"]["kind"], hook)] = inj.get("%s:%s@%s" % (e["ev"], e["inj"]["kind"], hook), 0) + 1
    crashes = [e for e in ops if e["res"] == "crash"]
    window = [e for e in crashes if "seed" not in e["files"] and any(f.startswith("bak") for f in e["files"])]
    partial = [e for e in ops if "seed" in e["files"] and not e["files"]["seed"]["parse"]]
    hits = sum(len(e["hits"]) for e in ops)
    pwkinds = {}
    for e in events:
        if e["ev"] == "reset":
            for k in e["pws"].values():
                pwkinds[k] = pwkinds.get(k, 0) + 1
    lens = sorted(set(n for e in ops for n in e.get("lens", {}).values()))
    tr = [e for e in events if e["ev"] == "trunc"]
    if ops and hits == 0:
        raise ToolError("no hook point was hit in %d life-cycle calls: harness built without --cfg grin_wallet_verif?" % len(ops))
    if not only_extra and (not crashes or not window or not partial):
        raise ToolError("vacuity guard: crashes=%d crash-window states=%d partial files=%d" % (len(crashes), len(window), len(partial)))
    panics = [e for e in events if e.get("res") == "panic" or e["ev"] == "harness_panic"]
    cov = {
        "mc_configs": stats, "schedules_generated": generated, "schedules_replayed": len(behaviours),
        "events_validated": len(events), "calls": len(ops), "hook_hits": hits, "injections": inj,
        "crash_events": len(crashes), "crash_window_states(wallet.seed absent, backup present)": len(window),
        "partial_seed_file_states": len(partial), "password_kinds": pwkinds, "seed_lengths_seen": lens,
        "truncation_cases": len(tr), "truncation_lengths_probed": sum(e["n"] for e in tr),
        "opener_probes": sum(len(f["code"]) * 2 + len(f["indep"]) for e in ops for f in e["files"].values()),
        "layer_m_nonconformances": len(nonconfs), "layer_m_first": nonconfs[:3], "panics_observed": len(panics),
        "model_counterexamples": len(cexb),
    }
    sample = [[{x: e[x] for x in e if x != "files"} for e in events if e.get("b") == 0][:4]]
    return keys, nonconfs, cov, sample, len(behaviours) + len(tr), stats


# ------------------------------------------------------------------ Secrets
def sec_features(b):
    """what a protocol behaviour exercises: the pair features of the wallet family plus, per slate, which calls
    were made by whom (third wallet), through which path (api) and whether a finalize came AFTER a finalize"""
    f = set(wallet_checks.features(b))
    tags = []
    for e in b:
        t = "%s:%s:%s:%s:%s" % (e.get("ev"), e.get("stage", ""), e.get("w", ""), "api" if e.get("api") else "", "again" if e.get("again") else "")
        tags.append((t, e.get("sl", "")))
        f.add(("c12", t))
    for i in range(len(tags)):
        for j in range(i + 1, len(tags)):
            if tags[i][1] and tags[i][1] == tags[j][1]:
                f.add(("c12", tags[i][0], tags[j][0]))
    return f


def sec_part(tier, rnd, extra_beh=None, only_extra=False, setup=None):
    stats, behs, cex = [], [], []
    cfgs = [] if only_extra else (["MC_C12_sec_quick.cfg"] if tier == "quick" else ["MC_C12_sec.cfg", "MC_C12_sec3.cfg"])
    setups = {}
    per_cfg = {}
    for cfg in cfgs:
        # behaviours in which the finalizer is handed a second valid reply are sampled separately and kept first
        r = run_tlc("MCSecrets.tla", cfg, "c12_" + cfg.replace(".cfg", ""), extra=["-continue"], timeout=900,
                    max_keep=12000, prefer=("again",))
        if r["error"] and not r["completed"]:
            log(r["out"][-3000:])
            raise ToolError("TLC failed on " + cfg)
        b = parse_printed(r["printed"]["REPLAY"], "REPLAY")
        c = parse_printed(r["printed"]["CEX"], "CEX")
        per_cfg[cfg] = wallet_checks.prefix_maximal(b)
        cex += c
        stats.append({"cfg": cfg, "states": r["states"], "transitions": r["transitions"], "depth": r["depth"],
                      "completed": r["completed"], "violated": sorted(set(x for t in r["violated"] for x in t if x)),
                      "behaviours_emitted": r["printed_counts"]["REPLAY"], "cex": r["printed_counts"]["CEX"], "wall_s": round(r["wall_s"], 1)})
        log("  MC %s: %d distinct states, %d transitions, depth %d, %d behaviours, %d model counter-examples %s (%.0fs)" % (
            cfg, r["states"], r["transitions"], r["depth"], r["printed_counts"]["REPLAY"], r["printed_counts"]["CEX"],
            sorted(set(x["inv"] for x in c)), r["wall_s"]))
    # seeded mutant of the spec: with the test RNG transcribed, FreshNonces must fail in the model
    mutant_ok = None
    if not only_extra:
        r = run_tlc("MCSecrets.tla", "MC_C12_sec_testrng.cfg", "c12_sec_testrng", timeout=300)
        mutant_ok = any("Inv_Fresh" in t for t in r["violated"])
        stats.append({"cfg": "MC_C12_sec_testrng.cfg (spec mutant: use_test_rng)", "mutant": True, "states": r["states"],
                      "transitions": r["transitions"], "FreshNonces_violated_as_required": mutant_ok})
        if not mutant_ok:
            raise ToolError("vacuity guard: FreshNonces is not violated in the model with TestRng = TRUE")
        # the code-shaped at-rest form must violate NoClearSecretAtRest as a plain invariant
        r = run_tlc("MCSecrets.tla", "MC_C12_sec_atrest.cfg", "c12_sec_atrest", timeout=300)
        stats.append({"cfg": "MC_C12_sec_atrest.cfg (NoClearSecretAtRest as a plain invariant)", "mutant": True, "states": r["states"],
                      "transitions": r["transitions"],
                      "NoClearSecretAtRest_violated_in_model": any("Inv_AtRestStrict" in t for t in r["violated"])})
        # seeded mutant of the spec: an invoice finalize that does not commit the deletion of its context
        # must violate ContextConsumed and, with a second payer's reply, NonceSignsOnce
        r = run_tlc("MCSecrets.tla", "MC_C12_sec_keepctx.cfg", "c12_sec_keepctx", extra=["-continue"], timeout=300)
        viol = set(x for t in r["violated"] for x in t if x)
        keep_ok = {"Inv_Consumed", "Inv_SignsOnce"} <= viol
        stats.append({"cfg": "MC_C12_sec_keepctx.cfg (spec mutant: context not deleted by the invoice finalize)", "mutant": True,
                      "states": r["states"], "transitions": r["transitions"],
                      "ContextConsumed_and_NonceSignsOnce_violated_as_required": keep_ok})
        if not keep_ok:
            raise ToolError("vacuity guard: ContextConsumed / NonceSignsOnce not violated in the model with DropDelete = TRUE: %s" % sorted(viol))
    n = 56 if tier == "quick" else 400
    chosen, generated = [], 0
    for cfg, all_b in per_cfg.items():
        generated += len(all_b)
        sel, _ = cover_select(all_b, n if "sec3" not in cfg else 120, rnd, sec_features)
        chosen += [(cfg, b) for b in sel]
    cexb, seen = [], set()
    for c in sorted(cex, key=lambda c: len(c.get("hist", []))):
        s = json.dumps(c.get("hist"), sort_keys=True)
        if s not in seen and len(cexb) < 6:
            seen.add(s)
            cexb.append(c["hist"])
    model_viol = sorted(set(c["inv"] for c in cex))
    # two worlds: 2 funded outputs for 2 slates, 3 for the 3-slate config
    groups = {}
    for b in cexb + (extra_beh or []):
        groups.setdefault(json.dumps(setup or SEC_SETUP), []).append(b)
    for i, (cfg, b) in enumerate(chosen):
        st = {"nfund": 3, "pad": 3} if "sec3" in cfg else SEC_SETUP
        # every fifth behaviour runs with w1 as a masked wallet (keychain mask token)
        if "sec3" not in cfg and i % 5 == 4:
            st = dict(SEC_SETUP, masked=True)
        groups.setdefault(json.dumps(st), []).append(b)
    keys, nonconfs, events_all, nbeh = {}, [], [], 0
    for gi, (st, bl) in enumerate(sorted(groups.items())):
        st = json.loads(st)
        log("  replaying %d protocol behaviours on real wallets (setup %s)" % (len(bl), st))
        t1 = time.time()
        nd = replay("replay_secrets", {"setup": st, "behaviours": bl}, "C12_sec%d" % gi)
        events = read_ndjson(nd)
        t2 = time.time()
        viols, nc, n_nc = validate("TraceSecrets.tla", "TraceSecrets.cfg", nd, "C12_sec%d" % gi, "TraceSecretsP.cfg")
        log("  Secrets: %d events recorded (%.0fs), validated by TLC (%.0fs): %d monitor failures, %d nonconformances" % (
            len(events), t2 - t1, time.time() - t2, len(viols), len(nc)))
        k2 = _viol_keys([v for v in viols if v["p"] == "C12"], "secrets", bl, {"setup": st})
        for k, v in k2.items():
            if k in keys:
                keys[k]["count"] += v["count"]
            else:
                keys[k] = v
        nonconfs += nc
        events_all += events
        nbeh += len(bl)
    steps = [e for e in events_all if e["ev"] not in ("reset", "harness_panic")]
    kinds = {}
    for e in steps:
        kinds[e["ev"] + ":" + e.get("res", "")] = kinds.get(e["ev"] + ":" + e.get("res", ""), 0) + 1
    parts = sum(len(e["sec"]["out"]) for e in steps)
    nonces = set(p["n"] for e in steps for p in e["sec"]["out"])
    pub_total = sum(e["sec"]["probe"]["pub_total"] for e in steps)
    pub_found = sum(e["sec"]["probe"]["pub_found"] for e in steps)
    ctx_events = sum(1 for e in steps if any(e["sec"]["ctx"][w] for w in e["sec"]["ctx"]))
    merged = sum(1 for e in steps for w in e["sec"]["ctx"] for c in e["sec"]["ctx"][w].values() if c["sec"] != c["isec"])
    if not only_extra and (parts == 0 or pub_total == 0 or pub_found != pub_total or ctx_events == 0):
        raise ToolError("vacuity guard: parts=%d scanner control %d/%d events-with-contexts=%d" % (parts, pub_found, pub_total, ctx_events))
    panics = [e for e in events_all if e.get("res") == "panic" or e["ev"] == "harness_panic"]
    cov = {
        "mc_configs": stats, "model_violations": model_viol,
        "model_violations_confirmed_on_code": sorted(k for k in keys if "NoClearSecret" in k) if model_viol else [],
        "behaviours_generated": generated, "behaviours_replayed": nbeh, "events_validated": len(events_all),
        "event_kinds": kinds, "participant_entries_checked": parts, "distinct_public_nonces": len(nonces),
        "events_with_stored_contexts": ctx_events, "merged_self_invoice_contexts_seen": merged,
        "bytes_scanned": sum(e["sec"]["probe"]["bytes"] for e in events_all if "sec" in e),
        "files_scanned": sum(e["sec"]["probe"]["files"] for e in events_all if "sec" in e),
        "wire_messages_scanned": sum(e["sec"]["probe"]["msgs"] for e in events_all if "sec" in e),
        "scanner_positive_control": "%d/%d public nonces found in the JSON form" % (pub_found, pub_total),
        "spec_mutant_testrng_violates_FreshNonces": mutant_ok,
        "layer_m_nonconformances": len(nonconfs), "layer_m_first": nonconfs[:3], "panics_observed": len(panics),
    }
    sample = [[{x: e[x] for x in e if x != "sec"} for e in events_all if e.get("b") == 0][:10]]
    return keys, nonconfs, cov, sample, nbeh, stats


# ------------------------------------------------------------------ entry
def run(tier, replay_path, t0):
    rnd = random.Random(seed())
    build_s = build_harness(["replay_seed", "replay_secrets"])
    if replay_path:
        info = json.load(open(replay_path))["info"]
        evs = info.get("events", [])
        if info.get("kind") == "seed":
            os.environ["VERIF_SEED"] = str(info.get("seed", seed()))
            if evs and evs[0].get("ev") == "trunc":
                keys, nonconfs, cov, sample, n, stats = seed_part(tier, rnd, only_extra=True, extra_trunc=[evs[0]["case"]])
            else:
                # same behaviour index => same rotation of passwords and seed lengths
                keys, nonconfs, cov, sample, n, stats = seed_part(tier, rnd, extra_sched=[evs], only_extra=True,
                                                                 b0=info.get("behaviour", 0))
        else:
            keys, nonconfs, cov, sample, n, stats = sec_part(tier, rnd, extra_beh=[evs], only_extra=True, setup=info.get("setup"))
        known, new = classify("C12", keys)
        cov.update({"states": 0, "transitions": 0, "traces_validated_against_impl": n, "samples": sample})
        return finish("C12", tier, "model_checking", cov, ASSUME, t0, known, new)
    k1, nc1, cov1, sample1, n1, st1 = seed_part(tier, rnd)
    k2, nc2, cov2, sample2, n2, st2 = sec_part(tier, rnd)
    keys = dict(k1)
    keys.update(k2)
    for nc, what in ((nc1, "SeedFile"), (nc2, "Secrets")):
        if nc:
            log("NONCONFORMANCE (%s): %d observed steps are not steps of the model (Layer M); first: %s" % (what, len(nc), json.dumps(nc[0])[:600]))
    known, new = classify("C12", keys)
    allst = [s for s in st1 + st2 if "states" in s and not s.get("mutant")]
    cov = {
        "states": sum(s["states"] for s in allst),
        "transitions": sum(s["transitions"] for s in allst),
        "traces_validated_against_impl": n1 + n2,
        "samples": sample1 + sample2,
        "exhaustive": all(s.get("completed") for s in allst),
        "seedfile": cov1, "secrets": cov2,
        "harness_build_s": round(build_s, 1),
    }
    finish("C12", tier, "model_checking", cov, ASSUME, t0, known, new)
