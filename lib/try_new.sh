#!/bin/bash
# lib/try_new.sh <ID> <n> "<checks>" : confirm the demo both ways in the agent's worktree, stage the change under seeded/<ID>-<n>
# (caught_by empty) and run the checks against it (lib/try_seeded.sh)
ID=$1; N=$2; CHECKS=$3
WT=/tmp/mw_${ID}_${N}; OUT=${WT}_out
DEMO=$(python3 -c "import json;print(json.load(open('$OUT/meta.json'))['demo_cmd'])")
echo "== $ID-$N demo with change:"; (cd $WT && timeout 1500 bash -c "$DEMO" 2>&1 | grep -E "test result|Summary|panicked at" | tail -2)
(cd $WT && git apply -R $OUT/patch.diff)
echo "== demo without change:"; (cd $WT && timeout 1500 bash -c "$DEMO" 2>&1 | grep -E "test result|Summary|panicked at" | tail -2)
(cd $WT && git apply $OUT/patch.diff)
python3 lib/save_mutant.py $ID $N none "first run pending" > /dev/null
lib/try_seeded.sh $ID-$N "$CHECKS" quick
