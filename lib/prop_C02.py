"""C02 Finalized transactions are valid, exact, and safe against an altered reply.

  MC   tlc enumerates every applicable case of spec/MCSlateAlgebra.tla (5 flows x
       shapes of the deal x ~70 alterations of a slate in flight, and every ordered pair
       of alterations on the basic shape) and model-checks, on
       the line-by-line transcription of finalize (SlateAlgebra!Finalize), that nothing
       the ALGEBRA condemns (SlateAlgebra!Verdict = must_fail) is accepted and that
       whatever is accepted is consensus-valid, fee-sufficient and exactly the deal;
       seeded spec mutants (one check of the code left out) must break that
  GEN  the same run prints every case with verdict and prediction as JSON (CASE)
  TV   harness/replay_tamper executes the cases as complete exchanges between real
       wallets over a real chain (the alteration is applied to the wire form of the
       real slate) and TLC validates the recorded outcomes under spec/TraceTamper.tla:
       Layer-P monitors (FinalTxValidExact.*, TamperRefused, StillCancellable) decide,
       Layer-M mismatches (observed result class != transcription) are NONCONFORMANCE."""
import concurrent.futures, json, os, random, threading, time
from common import *

MANIFEST_ENTRY = dict(
    cat="model_checking", ref="DESIGN.md 2.1, 4 C02", engine="slate-algebra-tla",
    text="TLC enumerates five flows (send, late-locked send, self-send, invoice finalized by the issuer, self-invoice) x deal shapes (1-2 inputs, 0-2 change outputs, amount-includes-fee, payment proof) x ~70 alterations of a slate in flight (reply: amount, fee, offset, kernel features/arguments, ttl, id, state, participant count, versions; the counterparty's key / nonce / partial signature replaced by the other participant's, by a fresh one, by a stale one, dropped, duplicated, a third participant added; commitments added with and without offset correction, removed, replaced, duplicated, moved between inputs and outputs, marked coinbase, range proof or commitment swapped; payment proof dropped / re-signed / re-addressed / added; and the initiating slate altered before the counterparty signs: amount, fee, features, offset, initiator key / nonce) and decides for each, from an abstract algebra of blinding sums and signature terms, whether even the most lenient assembly of the finalizer's context with the altered reply is an invalid, under-paid or inexact transaction (must-fail) or whether the alteration changes none of the facts (may-fail); it model-checks that the line-by-line transcription of finalize refuses every must-fail case and that everything it accepts is valid and exact. Every case is then executed as a complete exchange between real wallets over a real chain; every produced transaction is judged by the TLA+ predicates on observed data (real Transaction::validate, inputs = reserved inputs, outputs = recorded change + recipient outputs of the agreed amount, fee = agreed fee >= minimum, byte-equal to the stored copy, mined by the real chain), every must-fail case must have failed, and after every failure the pending entries must cancel and restore the balances.",
    technique="TLC enumeration/model checking of spec/MCSlateAlgebra.tla (SlateAlgebra.tla) + TLC-generated cases executed on the real code (harness replay_tamper) + TLC trace validation (spec/TraceTamper.tla)",
    note="Trusted: secp256k1 / bulletproofs / grin_core Transaction::validate and grin_chain block validation (they are the oracle for the cryptographic facts), LMDB. Theft by a man in the middle who REPLACES the whole recipient contribution consistently is outside the property (the sender cannot detect it without a payment proof / encrypted transport) and outside the classes. The verdict comes only from Layer-P monitors evaluated by TLC on outcomes observed from the real code.")

ASSUME = [
    "values in units of 1e6 nanogrin (fee base = 1 unit): every amount the wallets compute is a whole number of units",
    "coin selection is bound, not judged (C01): the harness picks the amount that gives the selection the requested shape and the realised shape is compared (Layer M)",
    "secp256k1 / bulletproofs / grin_core validate / grin_chain are trusted oracles; LMDB is trusted",
    "an alteration is applied to the wire form (SlateV4) of the genuine slate and delivered as the wallet would parse it (JSON round trip when the format can carry it)",
    "a consistent replacement of the whole counterparty contribution (theft by a man in the middle) is outside the property",
]

TIERS = {
    # per_class: cases per (flow, stage, tamper) class; group: cases per world
    # pairs_hot: pairs of alterations that the transcription accepts or that cancel each other out;
    # pairs_rest: a seeded sample of all other pairs
    # wall: the tier's budget in seconds; reserve: what trace validation and reporting need at the end.  The harness
    # is given the time that is left (it stops handing out new worlds when the time is up), so the wall time does not
    # depend on the machine's load; the number of exchanges actually executed is measured and reported.
    # floor: the least time the exchanges get even when the build (first build after a change of /repo, or waiting for
    # another check's cargo lock) or the model checker ate the budget - a slow start must not turn into a tool error
    "quick": dict(per_class=1, pairs_hot=40, pairs_rest=40, group=8, mutants=["validate", "late_take", "restore_fee_nonzero"], tv_chunks=6, wall=165, reserve=35, floor=75,
                  retry_late=0.9, retry_other=0.35),
    "thorough": dict(per_class=1000, pairs_hot=100000, pairs_rest=700, group=8, mutants=["validate", "check_fees", "restore_fee", "restore_fee_nonzero", "restore_amount", "late_take"],
                     tv_chunks=10, wall=1440, reserve=150, floor=400, retry_late=0.85, retry_other=0.6),
}


FLOWS = ("send", "late", "self", "inv", "invself")
FIELDS = ("flow", "nin", "nch", "incfee", "proof", "stage", "tamper", "tamper2")


def case_class(c):
    t2 = c.get("tamper2", "none")
    return "%s:%s:%s%s" % (c["flow"], c["stage"], c["tamper"], "" if t2 == "none" else "+" + t2)


# Defects of the unchanged tree that the transcription models as they are (Layer M must be exact on the pinned code):
# each is a switch in SlateAlgebra!Skip that stays ON while the first key of the defect is listed as `known`; once
# the maintainer has committed the patch and flipped the keys to `fixed`, the repaired transcription is used.
DEVIATIONS = {"ctx_state_check": "C02/TamperRefused/self:pre:cc_both+st_swap"}


def base_skip():
    known = set(k["key"] for k in load_known() if k.get("property") == "C02" and k.get("status") == "known")
    return sorted(sw for sw, key in DEVIATIONS.items() if key in known)


def write_trace_cfg(checkm):
    d = os.path.join(WORK, "cfg_C02")
    os.makedirs(d, exist_ok=True)
    p = os.path.join(d, "TraceTamper%s.cfg" % ("" if checkm else "P"))
    with open(p, "w") as f:
        f.write("CONSTANTS\n  Skip = {%s}\n  CheckM = %s\nSPECIFICATION TSpec\nPOSTCONDITION Consumed\nCHECK_DEADLOCK FALSE\n" % (
            ", ".join('"%s"' % x for x in base_skip()), "TRUE" if checkm else "FALSE"))
    return p


def write_cfg(name, skip, nin, nch, emit, invs, pairflows=(), singles=True, pairproof=("TRUE", "FALSE")):
    skip = sorted(set(skip) | set(base_skip()))
    d = os.path.join(WORK, "cfg_C02")
    os.makedirs(d, exist_ok=True)
    p = os.path.join(d, name + ".cfg")
    with open(p, "w") as f:
        f.write("CONSTANTS\n  Skip = {%s}\n  NinSet = {%s}\n  NchSet = {%s}\n  Emit = %s\n  PairFlows = {%s}\n  PairProof = {%s}\n  WithSingles = %s\nSPECIFICATION Spec\n%sCHECK_DEADLOCK FALSE\n" % (
            ", ".join('"%s"' % x for x in skip), ", ".join(map(str, nin)), ", ".join(map(str, nch)), "TRUE" if emit else "FALSE",
            ", ".join('"%s"' % x for x in pairflows), ", ".join(pairproof), "TRUE" if singles else "FALSE", "".join("INVARIANT %s\n" % i for i in invs)))
    return p


def run_mutant(m):
    """a seeded mutant of the SPEC: the transcription without one of the code's checks must
    accept something the algebra condemns (or return something invalid / inexact)"""
    skip = m.split("+")
    cfg = write_cfg("mut_" + m.replace("+", "_"), skip, [1], [0, 1], False, ["Mutant_Report"])
    r = run_tlc("MCSlateAlgebra.tla", cfg, "mc_C02_mut_" + m.replace("+", "_"), workers=2, timeout=300, keep_tags=("MUTCEX",), max_keep=100000)
    cex = parse_printed(r["printed"]["MUTCEX"], "MUTCEX")
    return m, r, sorted(set(case_class(x) for x in cex))


def split_trace(nd, n, tag):
    lines = [l for l in open(nd) if l.strip()]
    n = max(1, min(n, (len(lines) + 99) // 100))
    d = workdir("tvsplit_" + tag)
    size = (len(lines) + n - 1) // n
    parts = []
    for k in range(n):
        chunk = lines[k * size:(k + 1) * size]
        if chunk:
            p = os.path.join(d, "part%d.ndjson" % k)
            with open(p, "w") as f:
                f.writelines(chunk)
            parts.append(p)
    return parts


def validate(nd, tag, chunks):
    parts = split_trace(nd, chunks, tag)
    cfg_m, cfg_p = write_trace_cfg(True), write_trace_cfg(False)
    viols, nonconfs, skips = [], [], []
    m_ok = True

    def tv(cfg, p, t):
        r = run_tlc("TraceTamper.tla", cfg, t, workers=1, env={"TRACE": p}, timeout=1200, depth_first=True,
                    keep_tags=("VIOL", "NONCONF", "SKIP"), max_keep=1000000)
        return r, tlc_consumed(r["out"])

    def one(kp):
        k, p = kp
        r, consumed = tv(cfg_m, p, "tv_%s_%d" % (tag, k))
        ok, extra = True, []
        if consumed is None:
            ok = False
            extra = [{"line": -1, "id": -1, "what": "LayerM-evaluation-aborted", "cl": "", "info": r["out"][-600:]}]
            r, consumed = tv(cfg_p, p, "tvp_%s_%d" % (tag, k))
            if consumed is None:
                log(r["out"][-3000:])
                raise ToolError("trace validation did not consume the trace")
        pr = r["printed"]
        return parse_printed(pr["VIOL"], "VIOL"), parse_printed(pr["NONCONF"], "NONCONF") + extra, parse_printed(pr["SKIP"], "SKIP"), ok

    with concurrent.futures.ThreadPoolExecutor(max_workers=max(1, len(parts))) as ex:
        for v, nc, sk, ok in ex.map(one, list(enumerate(parts))):
            viols += v
            nonconfs += nc
            skips += sk
            m_ok = m_ok and ok
    return viols, nonconfs, skips, m_ok


def selftest_corrupt(events, dirty=()):
    """binding self-test: corrupt one recorded field of a validated trace line and require the
    TLA+ side (Layer P) to reject exactly that"""
    import copy
    events = [e for e in events if e["c"]["id"] not in dirty]     # lines that already break a monitor are no baseline
    ok_ev = next((e for e in events if e.get("run") == "ok" and e["o"]["res"] == "ok" and e["o"]["tx"]["chain_ok"]), None)
    bad_ev = next((e for e in events if e.get("run") == "ok" and "o2" not in e and e["o"]["res"] != "ok" and e["c"].get("verdict") == "must_fail" and e["o"]["cancel"]), None)
    re_ev = next((e for e in events if e.get("run") == "ok" and "o2" in e and e["o2"]["res"] == "ok" and e["o2"]["tx"]["chain_ok"]), None)
    if not ok_ev or not bad_ev or not re_ev:
        return None
    want, lines = {}, []

    def add(ev, i, mon, f, which="o"):
        x = copy.deepcopy(ev)
        x["c"]["id"] = i
        f(x[which])
        lines.append(json.dumps(x))
        want[i] = mon

    def fee(o): o["tx"]["fee"] += 1
    def stored(o): o["tx"]["stored_equal"] = False
    def inputs(o): o["tx"]["ins"] = o["tx"]["ins"][1:]
    def amount(o): o["deal"]["amt"] += 1
    def chain(o): o["tx"]["chain_ok"] = False
    def accepted(o):
        o["res"] = "ok"
        o["tx"] = copy.deepcopy(ok_ev["o"]["tx"])
    def balance(o): o["after"]["spendable"] -= 1
    def cancel(o): o["cancel"][0] = "err:notfound"
    add(ok_ev, 900001, "FinalTxValidExact.fee", fee)
    add(ok_ev, 900002, "FinalTxValidExact.stored", stored)
    add(ok_ev, 900003, "FinalTxValidExact.inputs", inputs)
    add(ok_ev, 900004, "FinalTxValidExact.amount", amount)
    add(ok_ev, 900005, "FinalTxValidExact.chain", chain)
    add(bad_ev, 900006, "TamperRefused", accepted)
    add(bad_ev, 900007, "StillCancellable", balance)
    add(bad_ev, 900008, "StillCancellable", cancel)
    def second_entry(o): o["resv"]["nsent"] = 2
    def stray_lock(o): o["resv"]["ins"] = o["resv"]["ins"] + [{"n": "w1:a0c999", "v": 60000}]
    add(re_ev, 900009, "Retry.FinalTxValidExact.entries", second_entry, "o2")
    add(re_ev, 900010, "Retry.FinalTxValidExact.inputs", stray_lock, "o2")
    add(ok_ev, 900011, "FinalTxValidExact.entries", second_entry)
    lines.append(json.dumps(ok_ev))      # an untouched line must stay clean
    d = workdir("selftest_C02")
    p = os.path.join(d, "corrupt.ndjson")
    with open(p, "w") as f:
        f.write("\n".join(lines) + "\n")
    r = run_tlc("TraceTamper.tla", write_trace_cfg(False), "tv_C02_selftest", workers=1, env={"TRACE": p}, timeout=300,
                depth_first=True, keep_tags=("VIOL",), max_keep=10000)
    if tlc_consumed(r["out"]) is None:
        log(r["out"][-2000:])
        raise ToolError("self-test trace was not consumed")
    got = {}
    for v in parse_printed(r["printed"]["VIOL"], "VIOL"):
        got.setdefault(v["id"], set()).add(v["m"])
    missed = [i for i, m in want.items() if m not in got.get(i, set())]
    clean = ok_ev["c"]["id"] not in got
    if missed or not clean:
        raise ToolError("binding self-test failed: corrupted lines not rejected %s / untouched line clean: %s" % (missed, clean))
    return {"corrupted_lines_rejected": len(want), "untouched_line_clean": clean}


def run(tier, replay_path, t0):
    rnd = random.Random(seed())
    T = TIERS[tier]
    build_s = build_harness(["replay_tamper"])
    log("  harness build %.0fs" % build_s)
    mc = None
    mutants = {}
    mut_thread = None
    if replay_path:
        info = json.load(open(replay_path))["info"]
        stim = info["cases"]
        for i, c in enumerate(stim):
            c["id"] = i
            c.setdefault("tamper2", "none")
            c.setdefault("retry", c.get("stage") != "none")
        allcases = stim
    else:
        # seeded spec mutants run beside the main enumeration
        def muts():
            with concurrent.futures.ThreadPoolExecutor(max_workers=3) as ex:
                for m, r, cl in ex.map(run_mutant, T["mutants"]):
                    mutants[m] = dict(completed=r["completed"], caught_by=cl)
        mut_thread = threading.Thread(target=muts)
        mut_thread.start()
        # the enumeration is split over nine TLC processes: the single alterations by number of inputs, the pairs by flow and proof
        invs = ["Inv_Reply", "Inv_Honest", "Inv_FinalTxValidExact", "Inv_TamperRefused", "Inv_Reserved", "Inv_Retry", "Inv_RetrySucceeds", "EmitCase"]
        # (tag, pair flows, proof values of the pairs, singles with this many inputs or None)
        jobs = [("singles1", (), (), 1), ("singles2", (), (), 2)]
        for f in FLOWS:
            if f in ("send", "late"):
                jobs += [("pairs_%s_p" % f, (f,), ("TRUE",), None), ("pairs_%s_n" % f, (f,), ("FALSE",), None)]
            else:
                jobs.append(("pairs_" + f, (f,), ("FALSE",), None))

        def mc_part(j):
            tag, pf, pp, nin = j
            cfg = write_cfg("mc_" + tag, [], [nin] if nin else [1, 2], [0, 1, 2], True, invs, pairflows=pf, singles=nin is not None, pairproof=pp or ("FALSE",))
            r = run_tlc("MCSlateAlgebra.tla", cfg, "mc_C02_%s_%s" % (tier, tag), workers=2, timeout=600, extra=["-continue"], keep_tags=("CASE",), max_keep=1000000)
            if not r["completed"] and not r["violated"]:
                log(r["out"][-3000:])
                raise ToolError("TLC did not complete the enumeration of MCSlateAlgebra (%s)" % tag)
            cs = parse_printed(r["printed"]["CASE"], "CASE")
            if len(cs) != r["states"]:
                raise ToolError("case print-out incomplete (%s): %d printed, %d states" % (tag, len(cs), r["states"]))
            return r, cs
        tmc = time.time()
        with concurrent.futures.ThreadPoolExecutor(max_workers=len(jobs)) as ex:
            parts = list(ex.map(mc_part, jobs))
        allcases = [c for _, cs in parts for c in cs]
        mc = {"states": sum(r["states"] for r, _ in parts), "transitions": sum(r["transitions"] for r, _ in parts),
              "completed": all(r["completed"] for r, _ in parts), "violated": [t for r, _ in parts for t in r["violated"]],
              "wall_s": time.time() - tmc}
        nm = sum(1 for c in allcases if c["verdict"] == "must_fail")
        log("  MC: %d cases enumerated and model-checked (%d must-fail, %d may-fail; %d predicted ok) in %.0fs; model invariants violated: %s" % (
            len(allcases), nm, len(allcases) - nm, sum(1 for c in allcases if c["predict"] == "ok"), mc["wall_s"],
            sorted(set(x for t in mc["violated"] for x in t if x)) or "none"))
        singles = [c for c in allcases if c["tamper2"] == "none"]
        pairs = [c for c in allcases if c["tamper2"] != "none"]
        by = {}
        for c in singles:
            by.setdefault(case_class(c), []).append(c)
        stim = []
        for k in sorted(by):
            lst = sorted(by[k], key=lambda c: json.dumps(c, sort_keys=True))
            rnd.shuffle(lst)
            stim += lst[:T["per_class"]]
        # pairs: "hot" = accepted by the transcription, or weaker than one of their halves
        vsingle = {(c["flow"], c["proof"], c["stage"], c["tamper"]): c["verdict"] for c in singles if c["nin"] == 1 and c["nch"] == 1 and not c["incfee"]}

        def hot(c):
            a = vsingle.get((c["flow"], c["proof"], c["stage"], c["tamper"]))
            b = vsingle.get((c["flow"], c["proof"], "post", c["tamper2"]))
            return c["predict"] == "ok" or (c["verdict"] == "may_fail" and "must_fail" in (a, b))
        hots = sorted((c for c in pairs if hot(c)), key=lambda c: json.dumps(c, sort_keys=True))
        rest = sorted((c for c in pairs if not hot(c)), key=lambda c: json.dumps(c, sort_keys=True))
        rnd.shuffle(hots)
        rnd.shuffle(rest)
        # model counter-examples (the transcription accepts what the algebra condemns) are never a verdict by
        # themselves: they are always executed on the real code, first
        cex = [c for c in allcases if (c["verdict"] == "must_fail" and c["predict"] == "ok") or (c["verdict2"] == "must_fail" and c["predict2"] == "ok")]
        cexk = set(json.dumps(c, sort_keys=True) for c in cex)
        hots = [c for c in hots if json.dumps(c, sort_keys=True) not in cexk]
        stim = [c for c in stim if json.dumps(c, sort_keys=True) not in cexk]
        if cex:
            log("  %d model counter-examples, replayed on the real code: %s" % (len(cex), sorted(set(case_class(c) for c in cex))[:6]))
        stim = cex + stim
        stim += hots[:T["pairs_hot"]] + rest[:T["pairs_rest"]]
        log("  stimulus: %d single alterations (%d classes), %d of %d hot pairs, %d of %d other pairs" % (
            len(stim) - len(hots[:T["pairs_hot"]]) - len(rest[:T["pairs_rest"]]), len(by), len(hots[:T["pairs_hot"]]), len(hots),
            len(rest[:T["pairs_rest"]]), len(rest)))
        # single alterations first (seeded order), then the pairs: a time budget that runs out cuts pairs first
        nsingle = len(stim) - len(hots[:T["pairs_hot"]]) - len(rest[:T["pairs_rest"]])
        head, tail = stim[len(cex):nsingle], stim[nsingle:]
        rnd.shuffle(head)
        rnd.shuffle(tail)
        stim = cex + head + tail
        # two deliveries: after a refused altered reply the genuine one is delivered as well - for every late-locked
        # case (the flow in which a refused finalize has already written to the store) but a seeded few, which keep
        # the direct cancel after the first refusal, and for a seeded share of the other flows
        for c in stim:
            c["retry"] = c["stage"] != "none" and rnd.random() < (T["retry_late"] if c["flow"] == "late" else T["retry_other"])
        for i, c in enumerate(stim):
            c["id"] = i
    if not stim:
        raise ToolError("no stimulus")
    groups = [stim[i:i + T["group"]] for i in range(0, len(stim), T["group"])]
    log("  executing %d exchanges (%d classes) on real wallets in %d worlds" % (len(stim), len(set(case_class(c) for c in stim)), len(groups)))
    t_exec0 = time.time()
    # wallets and chains live in a directory of this check alone (other checks share harness/target/tmp)
    os.environ.setdefault("VERIF_TMP", workdir("tmp_C02"))
    budget = max(T["floor"], int(T["wall"] - T["reserve"] - (time.time() - t0)))
    nd = replay("replay_tamper", {"groups": groups}, "C02", extra_args=["--budget-ms", str(budget * 1000)], timeout=budget + 120)
    events = read_ndjson(nd)
    if len(events) != len(stim):
        raise ToolError("the harness returned %d lines for %d cases" % (len(events), len(stim)))
    # cases that could not be set up (skip:*, not a class the slate cannot carry) are run once more in fresh worlds
    again = [e["c"] for e in events if e.get("run", "").startswith("skip:") and not e["run"].startswith("skip:tamper:") and e["run"] != "skip:budget"]
    left = T["wall"] - T["reserve"] - (time.time() - t0)
    if again and left > 20:
        log("  %d cases could not be set up (%s); running them once more" % (len(again), sorted(set(e["run"] for e in events if e["c"] in again))[:4]))
        nd2 = replay("replay_tamper", {"groups": [again[i:i + 4] for i in range(0, len(again), 4)]}, "C02_retry",
                     extra_args=["--budget-ms", str(int(left * 1000))], timeout=int(left) + 120)
        redo = {e["c"]["id"]: e for e in read_ndjson(nd2)}
        events = [redo.get(e["c"]["id"], e) for e in events]
        with open(nd, "w") as f:
            for e in events:
                f.write(json.dumps(e) + "\n")
    t_exec = time.time() - t_exec0
    t_tv0 = time.time()
    viols, nonconfs, skips, m_ok = validate(nd, "C02", T["tv_chunks"])
    log("  exchanges executed in %.0fs, trace validated by TLC in %.0fs" % (t_exec, time.time() - t_tv0))
    by_id = {e["c"]["id"]: e for e in events}
    unrun = [s for s in skips if s["why"] == "skip:budget"]
    skips = [s for s in skips if s["why"] != "skip:budget"]
    if unrun:
        log("  time budget: %d of %d exchanges were not started" % (len(unrun), len(stim)))
    if len(unrun) > (3 * len(stim)) // 4:
        raise ToolError("the time budget covered less than a quarter of the stimulus (%d of %d not started)" % (len(unrun), len(stim)))
    hard_skips = [s for s in skips if not s["why"].startswith("skip:tamper:")]
    if hard_skips:
        log("NONCONFORMANCE: %d cases could not be set up by the harness; first: %s" % (len(hard_skips), json.dumps(hard_skips[0])))
    if len(skips) > len(stim) // 10:
        raise ToolError("the harness skipped %d of %d cases: %s" % (len(skips), len(stim), skips[0]))
    keys = {}
    for v in sorted(viols, key=lambda v: v["id"]):
        key = "C02/%s/%s" % (v["m"], v["cl"])
        k = keys.setdefault(key, {"count": 0, "cases": [], "observed": []})
        k["count"] += 1
        if len(k["cases"]) < 3:
            e = by_id[v["id"]]
            k["cases"].append(dict({x: e["c"].get(x, "none") for x in FIELDS}, retry=bool(e["c"].get("retry"))))
            k["observed"].append({"o": e.get("o"), "steps": e.get("steps"), "info": v.get("info")})
    if nonconfs:
        per = {}
        for n in nonconfs:
            per["%s/%s" % (n["what"], n["cl"])] = per.get("%s/%s" % (n["what"], n["cl"]), 0) + 1
        log("NONCONFORMANCE: %d observed outcomes are not what the transcription predicts (Layer M): %s; first: %s" % (
            len(nonconfs), json.dumps(per)[:1500], json.dumps(nonconfs[0])[:800]))
    if mut_thread:
        mut_thread.join()
        for m, r in sorted(mutants.items()):
            log("  spec mutant without %-32s: %s" % (m, ("caught by %d classes e.g. %s" % (len(r["caught_by"]), r["caught_by"][:4])) if r["caught_by"] else "NOT CAUGHT"))
        if any(not r["caught_by"] for r in mutants.values()):
            raise ToolError("a seeded spec mutant was not caught: the model invariants are vacuous")
    known, new = classify("C02", keys)
    st = selftest_corrupt(events, set(v["id"] for v in viols)) if not new else None
    if st:
        log("  binding self-test: %d corrupted trace lines rejected by the TLA+ monitors, the untouched line accepted" % st["corrupted_lines_rejected"])
    ran = [e for e in events if e.get("run") == "ok"]
    kinds, wit = {}, {"success_validated_and_mined": 0, "must_fail_refused": 0, "may_fail_succeeded": 0, "failed_then_cancelled": 0,
                      "late_lock_failed_after_locking": 0, "noreply": 0, "delivered_off_wire": 0,
                      "retry_delivered": 0, "retry_succeeded_exact_and_mined": 0, "late_retry_after_lock_succeeded": 0, "cancelled_by_slate_id": 0}
    verdict_of = {json.dumps({x: c.get(x, "none") for x in FIELDS}, sort_keys=True): c.get("verdict") for c in allcases}
    for e in events:
        c = e["c"]
        if e.get("run") == "noreply":
            wit["noreply"] += 1
        if e.get("run") != "ok":
            continue
        o = e["o"]
        vd = verdict_of.get(json.dumps({x: c.get(x, "none") for x in FIELDS}, sort_keys=True), c.get("verdict"))
        ok = o["res"] == "ok"
        kk = "%s:%s" % (vd, "ok" if ok else o["res"])
        kinds[kk] = kinds.get(kk, 0) + 1
        if ok and o["tx"]["valid"] and o["tx"]["chain_ok"]:
            wit["success_validated_and_mined"] += 1
        if vd == "must_fail" and not ok:
            wit["must_fail_refused"] += 1
        if vd == "may_fail" and ok and c["tamper"] != "none":
            wit["may_fail_succeeded"] += 1
        if not ok and o["cancel"] and all(x == "ok" for x in o["cancel"]):
            wit["failed_then_cancelled"] += 1
        if not ok and c["flow"] == "late" and o["resv"]["ins"]:
            wit["late_lock_failed_after_locking"] += 1
        if "o2" in e:
            wit["retry_delivered"] += 1
            if e["o2"]["res"] == "ok" and e["o2"]["tx"]["valid"] and e["o2"]["tx"]["chain_ok"]:
                wit["retry_succeeded_exact_and_mined"] += 1
                if c["flow"] == "late" and o["resv"]["ins"]:
                    wit["late_retry_after_lock_succeeded"] += 1
        last = e.get("o2", o)
        if last["res"] != "ok" and e.get("cancel_by") == "slate" and last["cancel"] and all(x == "ok" for x in last["cancel"]):
            wit["cancelled_by_slate_id"] += 1
        if not (e.get("post_wire", True) and e.get("pre_wire", True)):
            wit["delivered_off_wire"] += 1
    if not replay_path:
        for w in ("success_validated_and_mined", "must_fail_refused", "may_fail_succeeded", "failed_then_cancelled",
                  "retry_succeeded_exact_and_mined", "late_retry_after_lock_succeeded", "cancelled_by_slate_id"):
            if wit[w] == 0:
                raise ToolError("vacuity: no executed case witnessed '%s'" % w)
    cov = {
        "states": mc["states"] if mc else 0,
        "transitions": mc["transitions"] if mc else 0,
        "traces_validated_against_impl": len(ran),
        "samples": [{"case": e["c"], "observed": {k: e["o"][k] for k in ("res", "tx", "deal", "resv", "cancel", "pending_after")},
                     "observed_retry": ({k: e["o2"][k] for k in ("res", "tx", "resv", "cancel", "pending_after")} if "o2" in e else None)}
                    for e in rnd.sample(ran, min(6, len(ran)))],
        "exhaustive": bool(mc and mc["completed"]),
        "mc_constants": {"Skip": base_skip(), "NinSet": [1, 2], "NchSet": [0, 1, 2], "PairFlows": list(FLOWS)},
        "mc_wall_s": round(mc["wall_s"], 1) if mc else 0,
        "model_invariants_violated": sorted(set(x for t in mc["violated"] for x in t if x)) if mc else [],
        "cases_enumerated": len(allcases),
        "cases_must_fail": sum(1 for c in allcases if c.get("verdict") == "must_fail"),
        "classes_enumerated": len(set(case_class(c) for c in allcases)),
        "pair_cases_executed": sum(1 for e in ran if e["c"].get("tamper2", "none") != "none"),
        "cases_executed": len(ran),
        "classes_executed": len(set(case_class(e["c"]) for e in ran)),
        "cases_skipped": len(skips),
        "cases_not_started_time_budget": len(unrun),
        "outcome_kinds": kinds,
        "vacuity_witnesses": wit,
        "spec_mutants": mutants,
        "binding_selftest": st,
        "layer_p_violation_keys": {k: v["count"] for k, v in keys.items()},
        "layer_m_nonconformances": len(nonconfs),
        "layer_m_first": nonconfs[:2],
        "layer_m_evaluated": m_ok,
        "harness_build_s": round(build_s, 1),
    }
    finish("C02", tier, "model_checking", cov, ASSUME, t0, known, new)
