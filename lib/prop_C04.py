"""C04 After refresh the wallet's books equal the chain's truth."""
import wallet_checks
from wallet_common import *

MANIFEST_ENTRY = dict(
    cat="model_checking", ref="DESIGN.md 4 C04", engine="wallet-tla",
    text="TLC explores histories of mining to the wallet, sends, (invoices in thorough), two accounts with switching and sends from a named account, skipped refreshes and cancels, and checks BooksEqualChain, LedgerEquality and AccountIsolation on the model after every refresh; on the real code TLC compares, after every successful refresh, the observed records with the REAL chain's unspent set (Chain::get_unspent for every commitment the harness has seen), the five reported balance figures with their definitions over the observed records, (asked for under minimum-confirmation settings 0, 1, 2 and 4), confirmed credits minus debits with the summed value of the records that are unspent or reserved (= total+locked for settings >= 1), and - on every observed send / reserve / finalize / cancel / pay-invoice step - that no output of ANOTHER account of the wallet changes status (AccountIsolation; two funded accounts with equal log ids are part of the quick tier) - except for wallets that cancelled a transaction that was or later is broadcast (Appendix B).",
    technique="TLC model checking of spec/MCWallet.tla + TLC-generated behaviours replayed on the real code + TLC trace validation (spec/TraceWallet.tla) against the real chain's UTXO set",
    note=WALLET_NOTE)

PARAMS = dict(quick_cfgs=["MC_C04_quick.cfg", "MC_C04_self.cfg", "MC_C05_acct.cfg"], thorough_cfgs=["MC_C04.cfg", "MC_C04_b.cfg", "MC_C03_acct.cfg", "MC_C03_three.cfg@sim=500x30"], quick_n=140, thorough_n=500, mc_timeout=900,
              setup={"nfund": 1, "pad": 3, "fault_refresh": True, "fault_scans": 3}, assumptions=WALLET_ASSUME, extra_behaviours=[
    # directed (fixes/C04-5): the block with the wallet's coinbase candidate is mined, and BEFORE the wallet looks at the
    # chain the node asks again under that candidate's key for the next height; the refresh must record the coinbase
    # with the height - and the maturity - of the block it is really in
    [{"ev": "mine", "to": "w1", "txs": []}, {"ev": "build_coinbase", "w": "w1", "key": "a0c1", "h": 6, "fees": 0},
     {"ev": "refresh", "w": "w1"}, {"ev": "mine", "to": "", "txs": []}, {"ev": "refresh", "w": "w1"}]])


def run(tier, replay_path, t0):
    return wallet_checks.run("C04", tier, with_replay(PARAMS, replay_path), t0)
