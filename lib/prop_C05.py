"""C05 Cancel is an exact rollback."""
import wallet_checks
from wallet_common import *

MANIFEST_ENTRY = None   # set below when the check is registered

PARAMS = dict(quick_cfgs=['MC_C05_quick.cfg'], thorough_cfgs=['MC_C05.cfg', 'MC_C05_inv.cfg'], quick_n=60, thorough_n=500,
              setup=STD_SETUP, assumptions=WALLET_ASSUME, extra_behaviours=[])


def run(tier, replay_path, t0):
    return wallet_checks.run("C05", tier, with_replay(PARAMS, replay_path), t0)
