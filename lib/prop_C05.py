"""C05 Cancel is an exact rollback."""
import wallet_checks
from wallet_common import *

MANIFEST_ENTRY = dict(
    cat="model_checking", ref='DESIGN.md 4 C05', engine="wallet-tla",
    text='TLC explores every flow (send, late-locked send in thorough, invoice in thorough) cancelled at every stage by log id and by slate id, with a second pending transaction, with two change outputs (MC_C05_chg.cfg), in two funded accounts with equal log ids, including refused cancels (confirmed, already cancelled, coinbase, unknown), and checks CancelIsRollback / CancelRefusedUnchanged as action properties on the model; the generated behaviours run on real wallets (the driver makes the refresh that owner::cancel_tx performs observable as its own step) and TLC judges the exact-rollback frame condition on the observed before/after states.',
    technique="TLC model checking of spec/MCWallet.tla + TLC-generated behaviours replayed on the real code + TLC trace validation (spec/TraceWallet.tla)",
    note=WALLET_NOTE)

PARAMS = dict(quick_cfgs=['MC_C05_quick.cfg', 'MC_C05_acct.cfg', 'MC_C05_chg.cfg'], thorough_cfgs=['MC_C05.cfg', 'MC_C05_inv.cfg', 'MC_C05_acct.cfg', 'MC_C03_acct.cfg', 'MC_C05_chg.cfg', 'MC_C03_three.cfg@sim=500x30'], quick_n=180, thorough_n=600, focus=['cancel', 'nchange'], crash_cases_quick=8, crash_cases_thorough=60, crash_ops=['cancel'],
              setup=STD_SETUP, assumptions=WALLET_ASSUME, extra_behaviours=[])


def run(tier, replay_path, t0):
    return wallet_checks.run("C05", tier, with_replay(PARAMS, replay_path), t0)
