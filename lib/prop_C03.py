"""C03 Reserved outputs are exclusive; protocol steps are not replayable."""
import json
import wallet_checks
from wallet_common import *

MANIFEST_ENTRY = dict(
    cat="model_checking", ref="DESIGN.md 4 C03", engine="wallet-tla",
    text="TLC exhaustively explores all interleavings of init/lock/receive/finalize/cancel/post/mine/refresh over 2 slates (duplicated and re-ordered deliveries included; late-locked sends in the thorough tier) and checks ExclusiveReservation and ReplayNoEffect on the model; a pair-feature-covering sample of the generated behaviours (every transition of the model prints its history) is executed on real wallets over a real chain and every observed state is judged by the same TLA+ predicates; refinement (Layer M) must hold on the unchanged tree so that the exhaustive result carries over to the code.",
    technique="TLC model checking of spec/MCWallet.tla + TLC-generated behaviours replayed on the real code + TLC trace validation (spec/TraceWallet.tla)",
    note=WALLET_NOTE)

PARAMS = dict(quick_cfgs=["MC_C03_quick.cfg", "MC_C07_quick.cfg", "MC_C03_acct.cfg", "MC_C03_exact.cfg"], thorough_cfgs=["MC_C03.cfg", "MC_C03_late.cfg", "MC_C03_acct.cfg", "MC_C03_exact.cfg", "MC_C03_three.cfg@sim=500x30"],
              quick_n=220, thorough_n=700, focus=['rep', 'finalize:S2L', 'refused', 'lock:'], setup=STD_SETUP, assumptions=WALLET_ASSUME, extra_behaviours=[])


def run(tier, replay_path, t0):
    return wallet_checks.run("C03", tier, with_replay(PARAMS, replay_path), t0)
