#!/bin/bash
# lib/try_mutant.sh <ID> <n> "<checks>" [tier]  : confirm the seeded change in its worktree (demo fails with,
# passes without), then apply it to /repo, run the named checks, and revert /repo.
ID=$1; N=$2; CHECKS=$3; TIER=${4:-quick}
WT=/tmp/mw_${ID}_${N}; OUT=${WT}_out
cd $WT || exit 2
DEMO=$(python3 -c "import json;print(json.load(open('$OUT/meta.json'))['demo_cmd'])")
echo "== demo cmd: $DEMO"
if [ "$5" != "skipdemo" ]; then
  echo "== with change:"; (cd $WT && timeout 1500 bash -c "$DEMO" 2>&1 | grep -E "test result|FAIL|PASS|panicked|Summary|passed|failed" | tail -4)
  (cd $WT && git stash -q -- $(git diff --name-only) 2>/dev/null || git apply -R $OUT/patch.diff)
  echo "== without change:"; (cd $WT && timeout 1500 bash -c "$DEMO" 2>&1 | grep -E "test result|FAIL|PASS|panicked|Summary|passed|failed" | tail -4)
  (cd $WT && (git stash pop -q 2>/dev/null || git apply $OUT/patch.diff))
fi
cd /repo && git apply --check $OUT/patch.diff || { echo "patch does not apply to /repo"; exit 2; }
git -C /repo apply $OUT/patch.diff
for c in $CHECKS; do
  echo "== check $c ($TIER) on the seeded tree"
  (cd /verif && timeout 3000 ./check $c --tier $TIER 2>&1 | grep -E "^VIOLATION|^  key|^KNOWN|^NONCONF|: ok|VIOLATIONS|TOOL-ERROR" | cut -c1-260 | head -12)
done
git -C /repo checkout -- . ; git -C /repo status --short | head -3
