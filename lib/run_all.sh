#!/bin/bash
# run every registered check at the given tier, summary to work/run_all_<tier>.log
cd "$(dirname "$0")/.."
tier=${1:-quick}
export VERIF_WORK=${VERIF_WORK:-$(pwd)/work/$tier}
mkdir -p $VERIF_WORK work
out=work/run_all_$tier.log
: > $out
for p in $(cat lib/registered.txt); do
  s=$(date +%s)
  timeout 3000 ./check $p --tier $tier > work/run_$p.$tier.out 2>&1
  rc=$?
  e=$(date +%s)
  nc=$(grep -c "^NONCONFORMANCE" work/run_$p.$tier.out)
  kf=$(grep -c "^KNOWN-FINDING" work/run_$p.$tier.out)
  vi=$(grep -c "^VIOLATION" work/run_$p.$tier.out)
  echo "$p rc=$rc wall=$((e-s))s violations=$vi known=$kf nonconf=$nc" >> $out
done
echo done >> $out
