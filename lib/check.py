import os, sys, time
sys.path.insert(0, os.path.dirname(os.path.abspath(__file__)))
from common import *


def main():
    t0 = time.time()
    if len(sys.argv) < 2:
        print("usage: check <id> [--tier quick|thorough] [--replay path]")
        sys.exit(2)
    prop = sys.argv[1]
    tier = os.environ.get("VERIF_TIER", "quick")
    replay_path = None
    a = sys.argv[2:]
    i = 0
    while i < len(a):
        if a[i] == "--tier":
            tier = a[i + 1]; i += 1
        elif a[i] == "--replay":
            replay_path = a[i + 1]; i += 1
        i += 1
    if tier not in ("quick", "thorough"):
        tier = "quick"
    try:
        import props
        props.dispatch(prop, tier, replay_path, t0)
    except ToolError as e:
        print("TOOL-ERROR:", e, flush=True)
        sys.exit(2)


main()
