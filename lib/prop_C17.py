"""C17 Expired slates are refused, expired pending transactions released."""
import wallet_checks
from wallet_common import *

MANIFEST_ENTRY = dict(
    cat="model_checking", ref='DESIGN.md 4 C17', engine="wallet-tla",
    text="TLC explores sends with a TTL of +1 block at every protocol step with blocks ticking in between, and checks ExpiredRefused / ExpiredReleased on the model; on the real code TLC checks, from the observed last-confirmed height, that a slate whose cutoff has been observed is refused without state change at receive/finalize, that a refresh at tip >= cutoff cancels the wallet's own unconfirmed entry and unlocks its inputs, and that nothing is refused or cancelled for expiry when the cutoff is 0, ahead of the tip, or the largest value there is (a delivery claiming u64::MAX); invoices whose cut-off has passed are paid with and without a TTL of the payer's own.",
    technique="TLC model checking of spec/MCWallet.tla + TLC-generated behaviours replayed on the real code + TLC trace validation (spec/TraceWallet.tla)",
    note=WALLET_NOTE)

PARAMS = dict(quick_cfgs=['MC_C17_quick.cfg', 'MC_C17_inv.cfg', 'MC_C17_two.cfg', 'MC_C17_self.cfg'], thorough_cfgs=['MC_C17.cfg', 'MC_C17_inv.cfg', 'MC_C17_quick.cfg', 'MC_C17_two.cfg', 'MC_C17_self.cfg', 'MC_C03_three.cfg@sim=500x30'], quick_n=130, thorough_n=500, focus=['ttl_past'],
              setup=STD_SETUP, assumptions=WALLET_ASSUME, extra_behaviours=[])


def run(tier, replay_path, t0):
    return wallet_checks.run("C17", tier, with_replay(PARAMS, replay_path), t0)
