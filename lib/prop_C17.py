"""C17 Expired slates are refused, expired pending transactions released."""
import wallet_checks
from wallet_common import *

MANIFEST_ENTRY = None   # set below when the check is registered

PARAMS = dict(quick_cfgs=['MC_C17_quick.cfg'], thorough_cfgs=['MC_C17.cfg'], quick_n=60, thorough_n=500,
              setup=STD_SETUP, assumptions=WALLET_ASSUME, extra_behaviours=[])


def run(tier, replay_path, t0):
    return wallet_checks.run("C17", tier, with_replay(PARAMS, replay_path), t0)
