"""mk_mutant_task.py <ID> <n> : create a scratch worktree /tmp/mw_<ID>_<n> of /repo HEAD and print the prompt
for a fresh sub-agent (only the property text, nothing from /verif)."""
import json, subprocess, sys, os
pid, n = sys.argv[1], sys.argv[2]
props = {json.loads(l)["id"]: json.loads(l) for l in open("/verif/properties.jsonl")}
p = props[pid]
wt = "/tmp/mw_%s_%s" % (pid, n)
out = wt + "_out"
if not os.path.exists(wt):
    subprocess.check_call(["git", "-C", "/repo", "worktree", "add", "--detach", wt, "HEAD"], stdout=subprocess.DEVNULL, stderr=subprocess.DEVNULL)
os.makedirs(out, exist_ok=True)
hint = sys.argv[3] if len(sys.argv) > 3 else ""
print(f"""You are a software engineer asked to SEED A REALISTIC DEFECT into a Rust code base, to test a verification tool you know nothing about.

Work ONLY inside your own git worktree of the repository: {wt} (mimblewimble/grin-wallet, the reference Grin wallet; crates: libwallet, impls, api, controller, util, config). Do NOT read or touch /verif, /repo or any other directory - your change must be independent of whatever the tool can already detect. No network is available. The code builds offline: `cd {wt} && cargo build --workspace --offline` (first build ~3 min; it has its own target dir). The existing test suite is `cd {wt} && cargo nextest run --workspace --no-fail-fast --test-threads 8 --offline` (about 2-3 minutes; 63 tests must pass).

THE PROPERTY the wallet is supposed to have:
Title: {p['title']}
Statement: {p['statement']}
Quantified over: {p['quantifier']['text']}
Code anchors (where the mechanism lives): {', '.join(p['anchors']['files'])}

YOUR TASK: write ONE change to the wallet's source code (not to tests) that BREAKS this property while (a) the workspace still compiles, and (b) the existing test suite still passes entirely. It must be a realistic defect a developer could introduce (a refactoring slip, a wrong condition, a missed update of a second site, an off-by-one, a check dropped on one path, state written in the wrong order ...), and it must need SOMETHING SPECIFIC TO MANIFEST - a particular interleaving, a crash or fault at a particular point, a multi-step sequence of operations, an unusual input, or two cooperating sites that each look fine alone - NOT something that ordinary use would expose at once. Keep the diff small (ideally < 40 lines). {hint}

DELIVERABLES, all written to {out}/ :
1. patch.diff  - `git -C {wt} diff` of your source change ONLY (no test files).
2. a demonstration: a new test file (e.g. controller/tests/seeded_demo.rs, written in the style of the existing tests in controller/tests/, or a #[test] in a crate) or a small program, copied to {out}/ as well, that FAILS (assertion/panic) with your change applied and PASSES without it. Say exactly how to run it.
3. meta.json : {{"property": "{pid}", "summary": "...what you changed...", "needs": "...what is needed for it to manifest...", "files": [...], "demo_file": "path inside the repo where the demo must be placed", "demo_cmd": "command, run from the worktree root, that runs the demo"}}.

VERIFY YOURSELF before you finish: with the change: build OK, whole existing suite passes (63 passed), demo FAILS; without the change (git stash / apply -R): demo PASSES. Leave the worktree with your change applied and the demo file in place. Final answer: a short report (what, why it is realistic, what it needs to manifest, the verification you ran).""")
