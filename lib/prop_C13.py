"""C13 The owner listener acts only on requests authenticated by the session key.

  MC   tlc model-checks spec/MCOwnerGate.tla (OwnerGate.tla = code-shaped model of
       OwnerAPIHandlerV3::call_api + the property GateSound as seven predicates) on every
       transition of the bounded model: all histories of <= 6 requests from the request
       alphabet (plain, encrypted under current / superseded / never-agreed keys, tampered
       body / tag / nonce, odd envelopes, nesting, batches, malformed bodies) over 2-3 keys.
  GEN  the same run prints the history ending with every transition (state x request);
       seeded random walks over the full vocabulary go beyond the model's bounds.
  TV   harness/replay_gate executes every history on the real handler (in-process
       hyper requests, the harness is the ECDH client) and TLC validates the recorded
       steps under spec/TraceOwnerGate.tla: Layer P = GateSound on observed data decides;
       Layer M = Handle(st, q) predicts response and state change (NONCONFORMANCE only).
"""
import json, os, random, re, shutil, subprocess, time, collections
from common import *

PROP = "C13"
MANIFEST_ENTRY = dict(
    cat="model_checking", ref="DESIGN.md 2.7, 4 C13, Appendix B Gate", engine="ownergate-tla",
    text="TLC exhaustively model-checks GateSound (no effect, no key change, no wallet data and no clear-text success unless the request "
         "authenticates under the handler's current session key or is the key exchange itself; replies encrypted under the key in force "
         "before the request; a successful key exchange installs a fresh key) on every transition of a code-shaped model of "
         "OwnerAPIHandlerV3::call_api over all histories of <= 6 requests (plain / encrypted under current, superseded and never-agreed keys / "
         "bit-flipped body, tag, nonce / truncated / odd envelopes / nested envelopes / batches / malformed bodies) and 2-3 key generations; "
         "the history ending in every (state, request) edge of the model is executed on the real handler in-process (the harness is the ECDH "
         "client and builds the AES-256-GCM envelopes itself) and the same TLA+ predicates judge every observed step; refinement of the "
         "model by the code (response class, key under which the reply opens, session-key rotation, wallet open/active account, store "
         "digest) is re-established on every run.",
    technique="TLC model checking of spec/MCOwnerGate.tla + TLC-generated request histories replayed on the real OwnerAPIHandlerV3::post "
              "+ TLC trace validation (spec/TraceOwnerGate.tla)",
    note="Trusted: ring AES-256-GCM and secp256k1 ECDH as used by the harness client; the harness's construction of each tamper class "
         "(re-checked per envelope: 'genuine' fact); the wallet-data atoms searched for in replies (mnemonic, account label, output "
         "commitment, slatepack address, top-level directory, token). HTTP transport (TLS, basic-auth api secret) is outside the property. "
         "The verdict comes only from Layer-P predicates evaluated by TLC on data observed from the real handler.")

ASSUME = [
    "AES-256-GCM (ring) and secp256k1 ECDH are trusted; the harness client uses them independently of the code under test",
    "a tampered envelope built by the harness realises its abstract tamper class (checked per envelope by the recorded 'genuine' fact)",
    "wallet data is recognised by a fixed set of atoms (mnemonic words, account label, output commitment, slatepack address, wallet directory, token)",
    "effects are observed as: digest of all files of the wallet directory (LMDB lock table excluded), wallet open?, active account, top-level directory, handler.shared_key",
    "HTTP-level protections of the listener (api secret basic auth, TLS) are not part of C13",
]

CFG = {"quick": "MC_C13_quick.cfg", "thorough": "MC_C13.cfg"}
MAX_HIST = {"quick": 9000, "thorough": 60000}


def prefix_maximal(behs):
    """drop histories that are a proper prefix of another one with the same start"""
    ser = [((b["open0"], b.get("foreign", False)), [json.dumps(q, sort_keys=True) for q in b["reqs"]]) for b in behs]
    seen = set()
    for o, s in ser:
        for i in range(1, len(s)):
            seen.add((o, tuple(s[:i])))
    out, dup = [], set()
    for b, (o, s) in zip(behs, ser):
        k = (o, tuple(s))
        if k not in seen and k not in dup:
            dup.add(k)
            out.append(b)
    return out


def chain(edges, rnd, maxchain=40):
    """one history per state-changing edge; the requests that leave the model state unchanged are
    executed one after the other (seeded order) after the common prefix that reaches their state"""
    groups = collections.OrderedDict()
    for e in edges:
        key = (e["open0"], e["foreign"], json.dumps(e["reqs"][:-1], sort_keys=True))
        g = groups.setdefault(key, {"open0": e["open0"], "foreign": e["foreign"], "prefix": e["reqs"][:-1], "loops": [], "moves": []})
        (g["loops"] if e.get("loop") else g["moves"]).append(e["reqs"][-1])
    out = []
    for g in groups.values():
        for q in g["moves"]:
            out.append({"open0": g["open0"], "foreign": g["foreign"], "reqs": g["prefix"] + [q]})
        loops = list(g["loops"])
        rnd.shuffle(loops)
        for i in range(0, len(loops), maxchain):
            out.append({"open0": g["open0"], "foreign": g["foreign"], "reqs": g["prefix"] + loops[i:i + maxchain]})
    return prefix_maximal(out)


def qstr(q):
    if q["k"] == "plain":
        return q["m"] + ("!" if q.get("form") == "notif" else "")
    if q["k"] == "enc":
        return "E%s[%s%s%s]" % (q["key"], qstr(q["inner"]), "" if q["tamper"] == "none" else " ~" + q["tamper"],
                                 "" if q["outer"] == "ok" else " @" + q["outer"])
    if q["k"] == "batch":
        return "[" + ",".join(qstr(i) for i in q["items"]) + "]"
    if q["k"] == "replay":
        return "replay#%s(%s)" % (q.get("idx"), qstr(q["of"]) if isinstance(q.get("of"), dict) else "?")
    return "raw:" + q.get("what", "?")


def mc(cfg, tag, extra_props=True):
    r = run_tlc("MCOwnerGate.tla", cfg, tag, extra=["-continue"], timeout=1200, max_keep=10 ** 7)
    if not r["completed"]:
        log(r["out"][-3000:])
        raise ToolError("TLC did not complete on " + cfg)
    return r


def witnesses():
    """every vacuity witness of MCOwnerGate must be reachable: its negation, checked as an invariant, must be violated"""
    r = run_tlc("MCOwnerGate.tla", "MC_C13_wit.cfg", "c13_wit", extra=["-continue"], timeout=600)
    got = set(x for t in r["violated"] for x in t if x)
    want = {"W_Rotated", "W_OpenActive", "W_Stored", "W_Desync"}
    if not want <= got:
        log(r["out"][-2000:])
        raise ToolError("vacuous model: witnesses not reachable: %s" % sorted(want - got))
    return sorted(got)


# vocabulary of spec/OwnerGate.tla (random walks beyond the bounds of the MC alphabet: any tamper x outer
# combination, any method inside, nesting depth 3, histories of up to 30 requests, any number of keys)
METHODS = ["init", "init_bad", "open", "open_badpw", "close", "create_wallet", "accounts", "tld", "summary", "outputs",
           "address", "unknown", "new_account", "set_active", "set_default", "mnemonic", "mnemonic_badpw", "secret_key"]
NOTIF = ["init", "new_account", "close", "tld"]
TAMPERS = ["none", "body", "tag", "nonce", "swapnonce", "trunc", "short", "empty", "nonce_short", "nonce_ext", "b64", "plainbody"]
OUTERS = ["ok", "other", "init", "noid", "strid", "bigid", "seq"]
RAWS = ["notjson", "empty", "string", "number", "null", "true", "nomethod", "emptyobj", "emptyarr", "nullmethod",
        "dup_init_last", "dup_init_first"]
REPLAY_SAFE = ["tld", "close", "open", "open_badpw", "init", "init_bad", "mnemonic", "create_wallet", "unknown"]
RAW_MEMBERS = ["string", "number", "null", "true", "nomethod", "emptyobj", "nullmethod"]


def rnd_plain(rnd, allow_open=True):
    m = rnd.choice(METHODS)
    while m == "open" and not allow_open:
        m = rnd.choice(METHODS)
    form = "notif" if (m in NOTIF and rnd.random() < 0.2) else "call"
    return {"k": "plain", "m": m, "form": form}


def rnd_enc(rnd, inner, honest):
    if honest:
        return {"k": "enc", "key": "latest", "tamper": "none", "outer": "ok", "inner": inner}
    key = rnd.choice(["latest", "latest", "latest", "prev", "first", -1])
    t = rnd.choice(TAMPERS) if rnd.random() < 0.6 else "none"
    o = rnd.choice(OUTERS) if rnd.random() < 0.4 else "ok"
    return {"k": "enc", "key": key, "tamper": t, "outer": o, "inner": inner}


def rnd_batch(rnd):
    items = []
    for _ in range(rnd.choice([0, 1, 2, 2, 3])):
        x = rnd.random()
        if x < 0.7:
            items.append(rnd_plain(rnd, allow_open=False))
        elif x < 0.85:
            items.append({"k": "raw", "what": rnd.choice(RAW_MEMBERS)})
        else:
            items.append({"k": "enc", "key": rnd.choice(["latest", -1]), "tamper": "none",
                          "outer": rnd.choice(["ok", "other", "strid", "init"]), "inner": rnd_plain(rnd, allow_open=False)})
    return {"k": "batch", "items": items}


def rnd_inner(rnd, depth):
    x = rnd.random()
    if x < 0.6:
        return rnd_plain(rnd)
    if x < 0.75:
        return rnd_batch(rnd)
    if x < 0.85:
        return {"k": "raw", "what": rnd.choice(RAWS)}
    if depth < 3:
        return rnd_enc(rnd, rnd_inner(rnd, depth + 1), rnd.random() < 0.5)
    return rnd_plain(rnd)


def random_walks(n, rnd, maxlen=30):
    out = []
    for _ in range(n):
        reqs = []
        for _ in range(rnd.randint(8, maxlen)):
            x = rnd.random()
            if x < 0.08:
                q = {"k": "plain", "m": "init", "form": "call"}
            elif x < 0.40:
                q = rnd_enc(rnd, rnd_plain(rnd), True)              # what an honest client sends
            elif x < 0.50:
                q = rnd_enc(rnd, rnd_inner(rnd, 2), True)
            elif x < 0.80:
                q = rnd_enc(rnd, rnd_inner(rnd, 2), False)           # tampered / superseded / wrong key
            elif x < 0.86:
                q = rnd_plain(rnd)
            elif x < 0.91:
                # an eavesdropper re-sends an earlier honest envelope
                c = [i for i, o in enumerate(reqs) if o["k"] == "enc" and o["tamper"] == "none" and o["outer"] == "ok"
                     and o["inner"]["k"] == "plain" and o["inner"]["m"] in REPLAY_SAFE]
                q = {"k": "replay", "idx": rnd.choice(c) + 1, "of": {}} if c else rnd_plain(rnd)
            elif x < 0.95:
                q = rnd_batch(rnd)
            else:
                q = {"k": "raw", "what": rnd.choice(RAWS)}
            reqs.append(q)
        out.append({"open0": rnd.random() < 0.5, "foreign": rnd.random() < 0.5, "reqs": reqs})
    return out


def judge(ndjson, tag):
    viols, nonconfs, m_ok, _ = validate_trace("TraceOwnerGate.tla", "TraceOwnerGate.cfg", ndjson, tag,
                                              cfg_fallback="TraceOwnerGateP.cfg")
    keys = {}
    for v in sorted(viols, key=lambda v: v["line"]):
        if v.get("p") != PROP:
            continue
        key = "%s/%s/%s" % (PROP, v["m"], v["ev"])
        k = keys.setdefault(key, {"b": v["b"], "line": v["line"], "info": v.get("info", ""), "count": 0})
        k["count"] += 1
    return keys, nonconfs, m_ok


def attach(keys, events, behaviours):
    by_b = collections.defaultdict(list)
    for i, e in enumerate(events):
        by_b[e.get("b")].append((i + 1, e))
    for k, info in keys.items():
        b = info["b"]
        beh = behaviours[b]
        upto = [e for (ln, e) in by_b[b] if ln <= info["line"] and e.get("ev") == "req"]
        info["behaviour"] = {"open0": beh["open0"], "foreign": beh.get("foreign", False), "reqs": [e["q"] for e in upto]}
        info["readable"] = [qstr(e["q"]) for e in upto]
        info["last_step"] = {x: upto[-1][x] for x in ("pre", "resp", "post")} if upto else {}


def trace_stats(events):
    """descriptive counts of what the replayed histories exercised (vacuity guards of the TV step)"""
    st = collections.Counter()
    cls = collections.Counter()
    for e in events:
        if e.get("ev") != "req":
            continue
        r, pre, post, q = e["resp"], e["pre"], e["post"], e["q"]
        cls[r["cls"] + (":" + r["inner"] if r["inner"] else "")] += 1
        if q["k"] == "replay":
            st["replayed_envelope"] += 1
            q = q["of"]
        if post["sess"] != pre["sess"]:
            st["key_changed"] += 1
            if pre["sess"] >= 1:
                st["key_superseded"] += 1
        if post["dig"] != pre["dig"]:
            st["store_changed"] += 1
        if post["open"] != pre["open"] or post["active"] != pre["active"]:
            st["volatile_changed"] += 1
        if post["mask"] != pre["mask"]:
            st["handler_mask_changed"] += 1
        if r["leak_dec"]:
            st["data_in_encrypted_reply"] += 1
        if q["k"] == "enc" and pre["sess"] >= 1 and q["key"] != pre["sess"] and q["key"] >= 1:
            st["request_under_superseded_key"] += 1
        if q["k"] == "enc" and q["key"] == pre["sess"] and q["tamper"] not in ("none", "nonce_ext"):
            st["tampered_under_current_key"] += 1
        if q["k"] == "enc" and q["inner"]["k"] == "enc":
            st["nested_envelope"] += 1
        if q["k"] == "batch" or (q["k"] == "enc" and q["inner"]["k"] == "batch"):
            st["batch"] += 1
        if q["k"] == "raw":
            st["malformed"] += 1
        if r["cls"] == "enc" and q["k"] == "enc" and q["inner"]["k"] == "plain" and q["inner"]["m"] == "init" and r["deckey"] == pre["sess"] and post["sess"] != pre["sess"]:
            st["encrypted_init_answered_under_old_key"] += 1
    return dict(st), dict(cls)


NEEDED = ["key_changed", "key_superseded", "store_changed", "volatile_changed", "data_in_encrypted_reply",
          "request_under_superseded_key", "tampered_under_current_key", "nested_envelope", "batch", "malformed", "replayed_envelope", "handler_mask_changed",
          "encrypted_init_answered_under_old_key"]


# ----------------------------------------------------------------- binding self-tests
def selftest_corrupt(events):
    """corrupt one recorded field in each of a few valid behaviours: TLC must reject every one (Layer P)"""
    by_b = collections.defaultdict(list)
    for e in events:
        by_b[e.get("b")].append(e)
    picks = []  # (what, predicate on event, mutation, expected monitor)
    def m_cls(e): e["resp"]["cls"] = "plain_ok"
    def m_open(e): e["post"]["open"] = not e["post"]["open"]
    def m_deckey(e): e["resp"]["deckey"] = e["resp"]["deckey"] + 1
    def m_leak(e): e["resp"]["leak_raw"] = ["mnemonic"]
    def m_sess(e): e["post"]["sess"] = e["pre"]["sess"]
    picks.append(("refused plain call recorded as a clear-text success", lambda e: e["q"]["k"] == "plain" and e["resp"]["cls"] == "gate_err" and e["q"]["m"] not in ("init", "init_bad"), m_cls, "ErrorUnlessAuth"))
    picks.append(("wallet-open flag flipped after a refused request", lambda e: e["resp"]["cls"] == "gate_err", m_open, "NoEffectUnlessAuth"))
    picks.append(("reply recorded as decrypting under another key", lambda e: e["resp"]["cls"] == "enc", m_deckey, "ReplyUnderKeyInForce"))
    picks.append(("mnemonic recorded in a clear-text reply", lambda e: e["resp"]["cls"] == "gate_err", m_leak, "NoClearData"))
    picks.append(("session key recorded as not rotated after a key exchange", lambda e: e["q"]["k"] == "plain" and e["q"]["m"] == "init" and e["q"]["form"] == "call" and e["resp"]["newkey"] >= 1, m_sess, "ExchangeRotates"))
    out, expect = [], []
    bs = sorted(b for b in by_b if b is not None)
    used = set()
    for what, pred, mut, mon in picks:
        for b in bs:
            if b in used:
                continue
            idx = [i for i, e in enumerate(by_b[b]) if e.get("ev") == "req" and pred(e)]
            if not idx:
                continue
            evs = json.loads(json.dumps(by_b[b]))
            i = idx[-1]
            mut(evs[i])
            evs = evs[: i + 1]
            nb = len(expect)
            for e in evs:
                e["b"] = nb
            out += evs
            expect.append((what, mon))
            used.add(b)
            break
    d = workdir("selftest_C13")
    p = os.path.join(d, "corrupt.ndjson")
    with open(p, "w") as f:
        for e in out:
            f.write(json.dumps(e) + "\n")
    viols, _, _, _ = validate_trace("TraceOwnerGate.tla", "TraceOwnerGateP.cfg", p, "c13_selftest")
    res = []
    for nb, (what, mon) in enumerate(expect):
        hit = any(v["b"] == nb and v["m"] == mon for v in viols)
        res.append({"corruption": what, "monitor": mon, "rejected": hit})
        if not hit:
            raise ToolError("binding self-test failed: corrupted trace not rejected: " + what)
    if len(res) < 4:
        raise ToolError("binding self-test could not find lines to corrupt")
    return res


SPEC_MUTANTS = [
    ("decrypt failure falls through to the dispatcher",
     'THEN Refuse(st, GateErr(-32002))                                             \\* "Decryption error"',
     'THEN Reply(st, Dispatch(st, q.inner), FALSE, FALSE, FALSE)'),
    ("plain requests pass once a session exists",
     'THEN Refuse(st, GateErr(-32002))                                             \\* "Encrypted request format error"',
     'THEN Reply(st, Dispatch(st, q), FALSE, FALSE, FALSE)'),
    ("encrypted init answered under the new key",
     'resp |-> Resp("enc", 0, st.sess,', 'resp |-> Resp("enc", 0, st2.sess,'),
]


def selftest_spec_mutants():
    """the model-level property is not vacuous: seeded mutants of Handle violate Prop_Gate in MC"""
    res = []
    for name, old, new in SPEC_MUTANTS:
        d = workdir("specmut_C13")
        for f in ("OwnerGate.tla", "MCOwnerGate.tla", "MC_C13_quick.cfg"):
            shutil.copy(os.path.join(SPEC, f), d)
        p = os.path.join(d, "OwnerGate.tla")
        s = open(p).read()
        if old not in s:
            raise ToolError("spec mutant does not apply: " + name)
        open(p, "w").write(s.replace(old, new))
        cfg = open(os.path.join(d, "MC_C13_quick.cfg")).read().replace("PROPERTY EmitEdges\n", "")
        open(os.path.join(d, "MC_C13_quick.cfg"), "w").write(cfg)
        cmd = ["timeout", "600", "tlc", "-workers", "4", "-metadir", os.path.join(d, "meta"), "-noGenerateSpecTE",
               "-config", "MC_C13_quick.cfg", "MCOwnerGate.tla"]
        out = subprocess.run(cmd, cwd=d, stdout=subprocess.PIPE, stderr=subprocess.STDOUT, text=True).stdout
        cex = tlc_printed(out, "CEX")
        res.append({"mutant": name, "caught": bool(cex), "monitor": cex[0]["inv"] if cex else None})
        if not cex:
            log(out[-2000:])
            raise ToolError("spec mutant not caught by MC: " + name)
        shutil.rmtree(d, ignore_errors=True)
    return res


# ------------------------------------------------------------------------------- run
def run(tier, replay_path, t0):
    rnd = random.Random(seed())
    build_s = build_harness(["replay_gate"])
    stats, cexb, wit, sim_n = [], [], [], 0
    behaviours = []
    n_edges = 0
    if replay_path:
        info = json.load(open(replay_path))["info"]
        behaviours = [info["behaviour"]]
    else:
        r = mc(CFG[tier], "c13_mc_" + tier)
        edges = parse_printed(r["printed"]["REPLAY"], "REPLAY")
        cex = parse_printed(r["printed"]["CEX"], "CEX")
        n_edges = len(edges)
        if n_edges == 0 or n_edges != r["printed_counts"]["REPLAY"]:
            raise ToolError("generation failed: %d edge histories parsed, %d printed" % (n_edges, r["printed_counts"]["REPLAY"]))
        violated = sorted(set(x for t in r["violated"] for x in t if x))
        stats.append({"cfg": CFG[tier], "states": r["states"], "transitions": r["transitions"], "depth": r["depth"],
                      "completed": r["completed"], "violated": violated, "edges_emitted": len(edges), "cex": len(cex),
                      "wall_s": round(r["wall_s"], 1)})
        log("  MC %s: %d distinct states, %d transitions, depth %d, %d edge histories, %d model counter-examples (%.0fs)" % (
            CFG[tier], r["states"], r["transitions"], r["depth"], len(edges), len(cex), r["wall_s"]))
        wit = witnesses()
        seen = set()
        for c in cex:
            s = json.dumps(c["hist"], sort_keys=True)
            if s not in seen and len(cexb) < 40:
                seen.add(s)
                cexb.append(c["hist"])
        allb = chain(edges, rnd)
        if len(allb) > MAX_HIST[tier]:
            allb = sample(allb, MAX_HIST[tier], rnd)
        simb = random_walks(150 if tier == "quick" else 3000, rnd)
        sim_n = len(simb)
        log("  RND: %d seeded random walks of 8..30 requests over the full vocabulary (seed %d)" % (sim_n, seed()))
        behaviours = cexb + allb + simb
    log("  replaying %d histories on the real OwnerAPIHandlerV3 (%d model counter-examples, %d random walks)" % (
        len(behaviours), len(cexb), sim_n))
    nd = replay("replay_gate", {"setup": {"seed": seed()}, "behaviours": behaviours}, PROP)
    events = read_ndjson(nd)
    keys, nonconfs, m_ok = judge(nd, PROP)
    attach(keys, events, behaviours)
    if nonconfs:
        kinds = collections.Counter(n.get("what", "?") for n in nonconfs)
        log("NONCONFORMANCE: %d observed fields are not what the model predicts (Layer M): %s; first: %s" % (
            len(nonconfs), dict(kinds), nonconfs[0]))
    st, cls = trace_stats(events)
    known, new = classify(PROP, keys)
    selftests = {}
    if not replay_path and not new:
        # vacuity guards and binding self-tests (a violation found above is reported first)
        missing = [k for k in NEEDED if not st.get(k)]
        if missing:
            raise ToolError("vacuous replay: never observed: %s" % missing)
        selftests["corrupted_traces"] = selftest_corrupt(events)
        if tier == "thorough":
            selftests["spec_mutants"] = selftest_spec_mutants()
    nreq = sum(1 for e in events if e.get("ev") == "req")
    samples = []
    for b in (0, len(behaviours) // 2, len(behaviours) - 1):
        evs = [e for e in events if e.get("b") == b and e.get("ev") == "req"]
        samples.append([{"q": qstr(e["q"]), "resp": e["resp"]["cls"] + ("/" + e["resp"]["inner"] if e["resp"]["inner"] else ""),
                         "deckey": e["resp"]["deckey"], "sess": [e["pre"]["sess"], e["post"]["sess"]],
                         "open": [e["pre"]["open"], e["post"]["open"]], "store_changed": e["pre"]["dig"] != e["post"]["dig"]} for e in evs])
    cov = {
        "states": sum(s["states"] for s in stats if s.get("completed")),
        "transitions": sum(s["transitions"] for s in stats if s.get("completed")),
        "traces_validated_against_impl": len(behaviours),
        "samples": samples,
        "mc_configs": stats,
        "exhaustive": all(s["completed"] for s in stats),
        "random_walks": sim_n,
        "model_edges": n_edges,
        "histories_replayed": len(behaviours),
        "requests_validated": nreq,
        "response_classes": cls,
        "trace_witnesses": st,
        "model_witnesses_reachable": wit,
        "layer_m_nonconformances": len(nonconfs),
        "layer_m_first": nonconfs[:3],
        "layer_m_evaluated": m_ok,
        "selftests": selftests,
        "panics_observed": sum(1 for e in events if e.get("ev") == "req" and e["resp"]["cls"] == "panic"),
        "harness_build_s": round(build_s, 1),
    }
    finish(PROP, tier, "model_checking", cov, ASSUME, t0, known, new)
