#!/bin/bash
# lib/regress_seeded.sh [ids...] : every seeded change against the check of the property it breaks (quick tier), in a
# private copy (SX, default /tmp/sx_reg); one line per change in work/regress_seeded.log
cd "$(dirname "$0")/.."
export SX=${SX:-/tmp/sx_reg}
out=work/regress_seeded.log
: > $out
ids=${@:-$(ls seeded | grep -E '^C[0-9]+-[0-9]+$')}
for id in $ids; do
  p=$(python3 -c "import json;print(json.load(open('seeded/$id/meta.json'))['breaks_property'])")
  extra=$(python3 -c "
import json
m=json.load(open('seeded/$id/meta.json'))
cs=sorted(set(c.split(':')[0] for c in m.get('caught_by',[])))
print(' '.join(c for c in cs if c!='$p'))")
  for c in $p $extra; do
    r=$(lib/try_seeded.sh $id $c quick 2>&1)
    if echo "$r" | grep -q "^VIOLATION"; then v=CAUGHT; elif echo "$r" | grep -q "TOOL-ERROR\|patch does not apply"; then v=TOOLERR; else v=MISSED; fi
    k=$(echo "$r" | grep "^  key" | head -2 | tr '\n' ' ')
    echo "$id $c $v $k" >> $out
  done
done
echo done >> $out
rm -rf $SX
