"""C16 Scanning restores and repairs the wallet to the chain's truth, idempotently."""
import wallet_checks
from wallet_common import *

MANIFEST_ENTRY = dict(
    cat="model_checking", ref="DESIGN.md 4 C16", engine="wallet-tla",
    text="TLC explores histories that end in restore-from-seed and scans (with and without delete_unconfirmed) of wallets whose records diverged from the chain - injected divergences (record deleted, Unspent marked Spent, Spent marked Unspent, locked), cancel after broadcast, a reorganisation - and checks ScanEqualsTruth, RestoredExact, ScanIdempotent on the model; on the real code (real range-proof rewinding over a real chain) TLC compares the scanned wallet's records with the REAL chain's unspent set for the seed (value, height, coinbase flag, maturity, account, next child index beyond every path found) and checks that an immediately repeated scan changes nothing.",
    technique="TLC model checking of spec/MCWallet.tla (Fork/Restore/Scan/Diverge actions) + TLC-generated behaviours replayed on the real code and chain + TLC trace validation (spec/TraceWallet.tla) against the real chain's UTXO set",
    note=WALLET_NOTE)

PARAMS = dict(quick_cfgs=["MC_C16_quick.cfg", "MC_C18_quick.cfg"], thorough_cfgs=['MC_C16.cfg', 'MC_C16_b.cfg'], quick_n=80, thorough_n=500,
              setup={"nfund": 2, "pad": 3}, assumptions=WALLET_ASSUME, extra_behaviours=[])


def run(tier, replay_path, t0):
    return wallet_checks.run("C16", tier, with_replay(PARAMS, replay_path), t0)
