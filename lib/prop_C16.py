"""C16 Scanning restores and repairs the wallet to the chain's truth, idempotently."""
import wallet_checks
from wallet_common import *

MANIFEST_ENTRY = dict(
    cat="model_checking", ref="DESIGN.md 4 C16", engine="wallet-tla",
    text="TLC explores histories that end in restore-from-seed and scans (with and without delete_unconfirmed) of wallets whose records diverged from the chain - injected divergences (record deleted, Unspent marked Spent, Spent marked Unspent, locked), cancel after broadcast, a reorganisation - and checks ScanEqualsTruth, RestoredExact, ScanIdempotent on the model; on the real code (real range-proof rewinding over a real chain) TLC compares the scanned wallet's records with the REAL chain's unspent set for the seed (value, height, coinbase flag, maturity, account, next child index beyond every path found) and checks that an immediately repeated scan changes nothing; directed behaviours add a restore whose last chain output is not the one with the highest key index and a wallet that never looked at the chain answering a payment that is abandoned; a view wallet (rewind hash) looking at the chain is woven in as a conformance step.",
    technique="TLC model checking of spec/MCWallet.tla (Fork/Restore/Scan/Diverge actions) + TLC-generated behaviours replayed on the real code and chain + TLC trace validation (spec/TraceWallet.tla) against the real chain's UTXO set",
    note=WALLET_NOTE)

PARAMS = dict(quick_cfgs=["MC_C16_quick.cfg", "MC_C16_two.cfg"], thorough_cfgs=["MC_C16.cfg", "MC_C16_b.cfg", "MC_C16_two.cfg"], quick_n=120, thorough_n=500, focus=['scan', 'diverge', 'fork', 'restore'],
              setup={"nfund": 2, "pad": 3}, assumptions=WALLET_ASSUME, extra_behaviours=[
    # directed: a restore from seed when the last output in chain order is NOT the one with the
    # highest derivation index (the change output of an earlier send is mined after a later coinbase)
    [{"ev": "init_send", "w": "w1", "sl": "s1", "amt": 1000}, {"ev": "mine", "to": "w1", "txs": []},
        {"ev": "lock", "w": "w1", "sl": "s1", "stage": "S1"}, {"ev": "receive", "w": "w2", "sl": "s1"},
        {"ev": "finalize", "w": "w1", "sl": "s1", "stage": "S2"}, {"ev": "post", "sl": "s1"}, {"ev": "mine", "to": "", "txs": ["s1"]},
        {"ev": "refresh", "w": "w1"}, {"ev": "restore", "w": "w3", "from": "w1"}, {"ev": "scan", "w": "w3", "start": 1, "del": False},
        {"ev": "mine", "to": "w3", "txs": []}, {"ev": "refresh", "w": "w3"}, {"ev": "scan", "w": "w3", "start": 1, "del": False}],
    # directed: a wallet that has NEVER looked at the chain (a new wallet) answers a payment that
    # is then abandoned: the stale incoming record (made at observed height 0) is dropped by a scan asked to drop pending
    # transactions, once and for all
    # directed: a wrongly SPENT record whose output sits at ANOTHER height now - the change of s1 (mined in the second of
    # three blocks) is spent by s2; a reorganisation of depth 3 re-includes s1 in its FIRST block and drops s2: the record
    # says Spent at the old height, the chain has the output unspent one block lower; scan repairs it, twice
    [{"ev": "init_send", "w": "w1", "sl": "s1", "amt": 1000}, {"ev": "lock", "w": "w1", "sl": "s1", "stage": "S1"},
     {"ev": "receive", "w": "w2", "sl": "s1"}, {"ev": "finalize", "w": "w1", "sl": "s1", "stage": "S2"}, {"ev": "post", "sl": "s1"},
     {"ev": "mine", "to": "", "txs": []}, {"ev": "mine", "to": "", "txs": ["s1"]}, {"ev": "refresh", "w": "w1"}, {"ev": "refresh", "w": "w2"},
     {"ev": "init_send", "w": "w1", "sl": "s2", "amt": 1000}, {"ev": "lock", "w": "w1", "sl": "s2", "stage": "S1"},
     {"ev": "receive", "w": "w2", "sl": "s2"}, {"ev": "finalize", "w": "w1", "sl": "s2", "stage": "S2"}, {"ev": "post", "sl": "s2"},
     {"ev": "mine", "to": "", "txs": ["s2"]}, {"ev": "refresh", "w": "w1"},
     {"ev": "fork", "depth": 3, "keep": ["s1"]},
     {"ev": "scan", "w": "w1", "start": 1, "del": False}, {"ev": "scan", "w": "w1", "start": 1, "del": False}, {"ev": "refresh", "w": "w1"}],
    [{"ev": "setup", "norefresh2": True}, {"ev": "init_send", "w": "w1", "sl": "s1", "amt": 1000},
        {"ev": "receive", "w": "w2", "sl": "s1", "dest": ""}, {"ev": "scan", "w": "w2", "start": 1, "del": True},
        {"ev": "scan", "w": "w2", "start": 1, "del": True}, {"ev": "refresh", "w": "w2"}]])


def run(tier, replay_path, t0):
    return wallet_checks.run("C16", tier, with_replay(PARAMS, replay_path), t0)
