"""C18 A reorganised-away incoming payment is found reverted by scan, never spendable."""
import wallet_checks
from wallet_common import *

MANIFEST_ENTRY = dict(
    cat="model_checking", ref="DESIGN.md 4 C18", engine="wallet-tla",
    text='TLC explores sends confirmed in a block that a longer fork of depth 1..2 then replaces (with and without the transaction, re-mined later, flip-flops bounded by 2 forks) with scans and refreshes at every point, and checks RevertedReported / RevertedRestored / ScanEqualsTruth on the model; on the real code the forks are real reorganisations of the real chain (competing blocks built on an earlier header), and TLC checks after every scan that a confirmed incoming payment whose output left the chain and whose kernel is gone is reported TxReverted / Reverted (so that the reported spendable and total, judged by InfoPartition, exclude it), that no Unspent record of the active account is missing from the chain (orphaned coinbases included), and after every refresh that a reverted output which is back on chain is confirmed and spendable again.',
    technique="TLC model checking of spec/MCWallet.tla (Fork/Restore/Scan/Diverge actions) + TLC-generated behaviours replayed on the real code and chain + TLC trace validation (spec/TraceWallet.tla) against the real chain's UTXO set",
    note=WALLET_NOTE)

PARAMS = dict(quick_cfgs=['MC_C18_quick.cfg', 'MC_C18_self.cfg'], thorough_cfgs=['MC_C18.cfg', 'MC_C18_self.cfg'], quick_n=60, thorough_n=500, focus=['Reverted'],
              setup={"nfund": 1, "pad": 3, "fault_scans": 4}, assumptions=WALLET_ASSUME, extra_behaviours=[])


def run(tier, replay_path, t0):
    return wallet_checks.run("C18", tier, with_replay(PARAMS, replay_path), t0)
