"""C18 A reorganised-away incoming payment is found reverted by scan, never spendable."""
import wallet_checks
from wallet_common import *

MANIFEST_ENTRY = dict(
    cat="model_checking", ref="DESIGN.md 4 C18", engine="wallet-tla",
    text='TLC explores sends confirmed in a block that a longer fork of depth 1..2 then replaces (with and without the transaction, re-mined later, flip-flops bounded by 2 forks) with scans and refreshes at every point, and checks RevertedReported / RevertedRestored / ScanEqualsTruth on the model; on the real code the forks are real reorganisations of the real chain (competing blocks built on an earlier header), and TLC checks after every scan that a confirmed incoming payment whose output left the chain and whose kernel is gone is reported TxReverted / Reverted (so that the reported spendable and total, judged by InfoPartition, exclude it), that no Unspent record of the active account is missing from the chain (orphaned coinbases included), and after every refresh that a reverted output which is back on chain is confirmed and spendable again; a directed behaviour does the same in a recipient with two accounts whose logs hold entries with equal ids.',
    technique="TLC model checking of spec/MCWallet.tla (Fork/Restore/Scan/Diverge actions) + TLC-generated behaviours replayed on the real code and chain + TLC trace validation (spec/TraceWallet.tla) against the real chain's UTXO set",
    note=WALLET_NOTE)

PARAMS = dict(quick_cfgs=['MC_C18_quick.cfg', 'MC_C18_selfq.cfg'], thorough_cfgs=['MC_C18.cfg', 'MC_C18_self.cfg', 'MC_C18_selfq.cfg'], quick_n=110, thorough_n=500, focus=['Reverted'],
              setup={"nfund": 1, "pad": 3, "fault_scans": 4}, assumptions=WALLET_ASSUME, extra_behaviours=[
    # directed: the recipient has TWO accounts whose logs both hold an entry with the same id (ids are per account);
    # the payment into the first one is confirmed, reorganised away, found reverted by a scan, mined again
    [{"ev": "setup", "nfund": 2}, {"ev": "create_account", "w": "w2", "label": "acct1"},
     {"ev": "init_send", "w": "w1", "sl": "s1", "amt": 1000}, {"ev": "lock", "w": "w1", "sl": "s1", "stage": "S1"},
     {"ev": "receive", "w": "w2", "sl": "s1", "dest": ""}, {"ev": "finalize", "w": "w1", "sl": "s1", "stage": "S2"},
     {"ev": "init_send", "w": "w1", "sl": "s2", "amt": 1000}, {"ev": "receive", "w": "w2", "sl": "s2", "dest": "acct1"},
     {"ev": "post", "sl": "s1"}, {"ev": "mine", "to": "", "txs": ["s1"]}, {"ev": "refresh", "w": "w2"},
     {"ev": "fork", "depth": 1, "keep": []}, {"ev": "scan", "w": "w2", "start": 1, "del": False},
     {"ev": "refresh", "w": "w2"}, {"ev": "mine", "to": "", "txs": ["s1"]}, {"ev": "refresh", "w": "w2"},
     {"ev": "scan", "w": "w2", "start": 1, "del": False}]])


def run(tier, replay_path, t0):
    return wallet_checks.run("C18", tier, with_replay(PARAMS, replay_path), t0)
