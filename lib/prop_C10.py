"""C10 Encrypted slatepacks are readable only by their recipients and tamper-evident.

  MC   tlc model-checks spec/MCEnvelope.tla (Envelope.tla): every (slate, sender,
       recipient set) packed, at most one adversarial edit (every single-token edit of
       the armored text, every class of single-byte edit of the binary form), opened
       with every key sequence a wallet can try; invariants = the property operators
  GEN  the same run prints the cases with their openers (CASE), the classes of edits
       (ELABEL) and the key table (KEYS)
  TV   harness/replay_envelope executes them on the real code (real wallets, keys from
       different wallets and derivation indices, owner::create_slatepack_message /
       slate_from_slatepack_message / decode_slatepack_message, Slatepacker), sweeps the
       edits over every (sampled) position of real messages, and TLC judges the record
       under spec/TraceEnvelope.tla: Layer-P monitors decide, Layer M only reports."""
import json, os, random, time
from common import *

PROP = "C10"
MANIFEST_ENTRY = dict(
    cat="model_checking", ref="DESIGN.md 2.6 (Envelope), 4 C10, Appendix B 'Armor edits'", engine="envelope-tla",
    text="TLC explores spec/MCEnvelope.tla: all 144 (slate, sender, recipient set over k1..k4) packs, every single-token "
         "substitution/deletion/insertion/transposition of the (scaled) armored text and every class of single-byte edit of the "
         "binary form and of the JSON form's base64 payload, opened with every key sequence over k1..k5 a wallet can try; invariants: CanOpen <=> k in R, the opened "
         "slate/sender are the originals, ClearAtoms of every encoded form exclude slate and sender, an edited message is the same "
         "slate or an error, an edited encrypted payload is an error; the label-level predictions equal the token-level decoder. "
         "TLC emits the cases; the harness packs and opens them on real wallets (keys from three wallets and several derivation "
         "indices, plus seeded wrong keys), scans every encoded form (armored, base58-decoded, binary, JSON) for the sender address "
         "and every 16-byte window of the slate encoding, and executes single-character edits at every position (quick: a seeded "
         "sample plus the whole frame) of real armored messages, single-byte edits of the binary form (plus a directed container whose header MAC ends in a zero byte) "
         "and single-character edits of the JSON form; TLC judges the record.",
    technique="TLC model checking of spec/MCEnvelope.tla + TLC-generated cases executed on the real slatepack code + TLC trace "
              "validation (spec/TraceEnvelope.tla)",
    note="Trusted: the age crate's cryptography (a wrong key is sampled over derived keys, not all keys), SHA-256/base58 crates; "
         "the harness's needle scan and its labelling of edits (Envelope.tla Label, re-implemented in replay_envelope/edits.rs). "
         "The verdict comes only from Layer-P monitors evaluated by TLC on facts observed from the real code.")

ASSUME = [
    "age's cryptography is trusted: 'no other key' is sampled over keys derived by three wallets at many indices, not proved",
    "a 16-byte window of the slate's V4 binary encoding (and the bech32/raw form of the sender key) is the needle for 'in clear'",
    "armor edits: one character substituted/deleted/inserted/transposed; in the quick tier positions are a seeded sample plus the frame",
    "the armor model is scaled (2-letter frame words, 7 payload characters); its label-level prediction is validated against the real decoder on every executed edit",
]


def fixed(key):
    return any(k.get("property") == PROP and k.get("key") == key and k.get("status") == "fixed" for k in load_known())


def mc_and_gen(cfg, env, tag, timeout=600):
    r = run_tlc("MCEnvelope.tla", cfg, tag, extra=["-continue"], env=env, timeout=timeout,
                keep_tags=("CASE", "ELABEL", "CEX", "KEYS"), max_keep=100000)
    if (r["error"] and not r["completed"]) or not r["completed"]:
        log(r["out"][-3000:])
        raise ToolError("TLC failed on " + cfg)
    cases = parse_printed(r["printed"]["CASE"], "CASE")
    labels = parse_printed(r["printed"]["ELABEL"], "ELABEL")
    cex = parse_printed(r["printed"]["CEX"], "CEX")
    keys = parse_printed(r["printed"]["KEYS"], "KEYS")
    if r["printed_counts"]["CASE"] != len(cases) or r["printed_counts"]["ELABEL"] != len(labels):
        raise ToolError("generated cases/labels were lost while reading TLC's output")
    st = {"cfg": cfg, "states": r["states"], "transitions": r["transitions"], "depth": r["depth"], "completed": r["completed"],
          "violated": sorted(set(x for t in r["violated"] for x in t if x)), "cases": len(cases), "labels": len(labels),
          "cex": len(cex), "wall_s": round(r["wall_s"], 1)}
    log("  MC %s: %d distinct states, %d transitions, %d cases, %d edited states, %d model counter-examples (%.0fs)" % (
        cfg, r["states"], r["transitions"], len(cases), len(labels), len(cex), r["wall_s"]))
    return st, cases, labels, cex, (keys[0] if keys else None)


def lkey(form, l):
    return "%s:%s:%s%s:%s>%s%s" % (form, l["k"], l["r"], ("-" + l["r2"]) if l["r2"] else "", l["o"], l["n"], ":eq" if l["eq"] else "")


def case_name(c):
    return "%s/%s/{%s}" % (c["s"], c["snd"], ",".join(c["R"]))


def plan(cases, tier, rnd):
    """which cases run, with which openers and which edit sweeps"""
    cases = sorted(cases, key=case_name)
    targets = [c for c in cases if c["edit"]]
    if tier == "thorough":
        chosen = cases
        for c in chosen:
            c["armor"] = {"n": 0, "api_every": 20}      # every message: its whole frame
        for c in targets:
            c["armor"] = {"all": True, "api_every": 100}
            c["bin"] = {"all": True, "probe_mac": True} if c["R"] else "none"
            c["json"] = {"all": True} if c["R"] else "none"
        extra = 6
    else:
        # quick: every recipient-set shape stays, slates/senders are sampled
        by_r = {}
        for c in cases:
            by_r.setdefault(",".join(c["R"]), []).append(c)
        chosen = []
        for r, lst in sorted(by_r.items()):
            chosen += sample(lst, 4, rnd)
        ids = set(case_name(c) for c in chosen)
        plain = [c for c in targets if not c["R"]]
        enc = [c for c in targets if c["R"]]
        sw = sample(plain, 2, rnd) + sample(enc, 3, rnd)
        for c in sw:
            c["armor"] = {"n": 160, "api_every": 40}
            c["bin"] = {"n": 200, "probe_mac": True} if c["R"] else "none"
            c["json"] = {"n": 150} if c["R"] else "none"
            if case_name(c) not in ids:
                chosen.append(c)
        for c in chosen:
            ops = c["openers"]
            pairs = [o for o in ops if len(o) == 2]
            c["openers"] = [o for o in ops if len(o) < 2] + sample(pairs, 2, rnd)
        extra = 2
    out = []
    for i, c in enumerate(chosen):
        out.append({"id": "c%d" % (i + 1), "s": c["s"], "snd": c["snd"], "R": c["R"], "openers": c["openers"],
                    "armor": c.get("armor", "none"), "bin": c.get("bin", "none"), "json": c.get("json", "none")})
    return out, extra


def judge(nd, tag, env):
    tags = ("VIOL", "NONCONF", "CONSUMED", "STUCK")
    def tv(cfg, t):
        r = run_tlc("TraceEnvelope.tla", cfg, t, workers=1, env=dict(env, TRACE=nd), timeout=1500, depth_first=True,
                    keep_tags=tags, max_keep=200000)
        return r, tlc_consumed("".join(r["printed"]["CONSUMED"]))
    r, consumed = tv("TraceEnvelope.cfg", "tv_" + tag)
    m_ok = True
    nonconfs = parse_printed(r["printed"]["NONCONF"], "NONCONF")
    if consumed is None:
        # Layer M evaluation aborted TLC: re-judge with Layer P alone
        m_ok = False
        r, consumed = tv("TraceEnvelopeP.cfg", "tvp_" + tag)
        nonconfs.append({"line": -1, "c": "", "ev": "?", "what": "LayerM-evaluation-aborted"})
        if consumed is None:
            log(r["out"][-3000:])
            raise ToolError("trace validation did not consume the trace")
    return parse_printed(r["printed"]["VIOL"], "VIOL"), nonconfs, m_ok, consumed, r


def run(tier, replay_path, t0):
    rnd = random.Random(seed())
    build_s = build_harness(["replay_envelope"])
    meta_kept = not fixed("C10/NoClearAtoms/json")
    env = {"C10_META_KEPT": "1" if meta_kept else "0"}
    stats, labels, cex = [], [], []
    keys = {"k1": {"w": "w1", "idx": 0}, "k2": {"w": "w1", "idx": 1}, "k3": {"w": "w2", "idx": 0},
            "k4": {"w": "w2", "idx": 3}, "k5": {"w": "w3", "idx": 0}}
    if replay_path:
        info = json.load(open(replay_path))["info"]
        cases, extra = [info["replay_case"]], 0
        os.environ["VERIF_SEED"] = str(info.get("seed", seed()))     # the wallets' keys are derived from it
    else:
        st, gen_cases, labels, cex, k = mc_and_gen("MC_C10.cfg" if tier == "thorough" else "MC_C10_quick.cfg", env, "mc_c10")
        stats.append(st)
        if k:
            keys = k
        if tier == "thorough":
            # the decoder's panic branches are reachable with two edits (witness, not judged)
            w = run_tlc("MCEnvelope.tla", "MC_C10_w2.cfg", "mc_c10_w2", env=env, timeout=300)
            stats.append({"cfg": "MC_C10_w2.cfg", "states": w["states"], "transitions": w["transitions"],
                          "witness_two_edits_reach_panic": any("Inv_NoPanicWitness" in t for t in w["violated"])})
        cases, extra = plan(gen_cases, tier, rnd)
    inp = {"seed": seed(), "keys": keys, "extra_wrong": extra, "cases": cases}
    nsweeps = sum(1 for c in cases for f in ("armor", "bin", "json") if c.get(f, "none") != "none")
    log("  executing %d cases on the real code (%d edit sweeps, tier %s)" % (len(cases), nsweeps, tier))
    t1 = time.time()
    nd = replay("replay_envelope", inp, PROP, timeout=2400)
    t2 = time.time()
    events = read_ndjson(nd)
    viols, nonconfs, m_ok, consumed, _ = judge(nd, PROP, env)
    t3 = time.time()
    log("  harness %.0fs, trace validation %.0fs" % (t2 - t1, t3 - t2))
    if consumed != len(events):
        raise ToolError("trace validation consumed %s of %d lines" % (consumed, len(events)))

    by_id = {c["id"]: c for c in cases}
    keysd = {}
    for v in sorted(viols, key=lambda v: v["line"]):
        key = "%s/%s/%s" % (PROP, v["m"], v["key"])
        c = by_id.get(v["c"], {})
        if key not in keysd:
            rc = dict(c)
            ex = None
            if v["ev"] == "edits":
                e = events[v["line"] - 1]
                bad = [o for o in ("diff", "panic", "same", "err") if e.get(o, 0) > 0 and o in e["ex"]]
                pick = [o for o in bad if o in ("diff", "panic")] or [o for o in bad if o == "same"] or bad
                ex = e["ex"][pick[0]] if pick else None
                rc["armor"], rc["bin"], rc["json"] = "none", "none", "none"
                if ex:
                    rc[e["form"]] = {"list": [{"k": ex["k"], "pos": ex["pos"], "ch": ex["ch"]}]}
                    # the exact message the edit was applied to (encryption is randomised; the
                    # wallets' keys are a function of VERIF_SEED)
                    sw = [x for x in events if x["ev"] == "sweep" and x.get("id") == ex.get("sweep")]
                    if sw:
                        rc["given"] = {"form": e["form"], "hex": sw[0]["msg"]}
            else:
                rc["armor"], rc["bin"], rc["json"] = "none", "none", "none"
            keysd[key] = {"monitor": v["m"], "count": 0, "first": v, "seed": seed(), "case": {x: c.get(x) for x in ("s", "snd", "R")},
                          "example_edit": ex, "replay_case": rc}
        keysd[key]["count"] += 1
    if nonconfs:
        kinds = {}
        for n in nonconfs:
            kinds[n.get("what", "?")] = kinds.get(n.get("what", "?"), 0) + 1
        log("NONCONFORMANCE: %d observed results are not what the model predicts (Layer M); kinds: %s" % (
            len(nonconfs), json.dumps(kinds)[:600]))
    # model counter-examples are reported only when the real code reproduced them
    cex_kinds = {}
    for c in cex:
        cex_kinds[c["inv"]] = cex_kinds.get(c["inv"], 0) + 1
    for inv, n in sorted(cex_kinds.items()):
        rep = any(k == "%s/%s" % (PROP, inv) for k in keysd)
        log("  model counter-example %s (%d cases): %s on the real code" % (inv, n, "REPRODUCED" if rep else "not reproduced"))
        if not rep:
            log("NONCONFORMANCE: the model violates %s but the code does not (model is code-shaped for the pinned commit)" % inv)

    # ---- coverage and vacuity guards (measured on this run)
    opens = [e for e in events if e["ev"] == "open"]
    packs = [e for e in events if e["ev"] == "pack"]
    eds = [e for e in events if e["ev"] == "edits"]
    enc_ids = set(e["c"] for e in packs if e["R"])
    def is_member(e):
        return any(k in by_id[e["c"]]["R"] for k in e["by"])
    w_open_member = sum(1 for e in opens if e["c"] in enc_ids and is_member(e) and e["res"] == "ok")
    w_refused = sum(1 for e in opens if e["c"] in enc_ids and not is_member(e) and e["res"] != "ok")
    w_plain_seen = sum(1 for e in packs if not e["R"] and e["forms"].get("dec", {}).get("win", 0) > 0)
    w_plain_sender = sum(1 for e in packs if not e["R"] and e["snd"] != "none" and e["forms"].get("dec", {}).get("snd_str"))
    nedits = sum(e["n"] for e in eds)
    per = {}
    for e in eds:
        k = "%s:%s:%s" % (e["form"], "enc" if e["enc"] else "plain", e["lbl"]["k"])
        d = per.setdefault(k, {"n": 0, "same": 0, "err": 0, "diff": 0, "panic": 0})
        for x in d:
            d[x] += e[x]
    real_labels = set((e["form"], e["enc"], lkey(e["form"], e["lbl"])) for e in eds)
    model_labels = set((l["form"], l["enc"], lkey(l["form"], l["l"])) for l in labels)
    swept = set((e["form"], e["enc"]) for e in eds)
    model_missing = sorted("%s:%s" % ("enc" if m[1] else "plain", m[2]) for m in model_labels if (m[0], m[1]) in swept and m not in real_labels)
    real_extra = sorted(set("%s:%s" % ("enc" if m[1] else "plain", m[2]) for m in real_labels if m not in model_labels))
    if not replay_path:
        vac = []
        if not w_open_member: vac.append("no recipient ever opened an encrypted pack")
        if not w_refused: vac.append("no non-recipient was ever refused")
        if not w_plain_seen: vac.append("the needle scan never saw a plain slate")
        if not w_plain_sender: vac.append("the needle scan never saw a plain sender")
        for form, enc in (("armor", "plain"), ("armor", "enc"), ("bin", "enc"), ("json", "enc")):
            for k in ("sub", "del", "ins", "swap"):
                if per.get("%s:%s:%s" % (form, enc, k), {}).get("n", 0) == 0:
                    vac.append("no %s %s %s edit was executed" % (form, enc, k))
        if vac:
            raise ToolError("vacuity guard: " + "; ".join(vac))
    known, new = classify(PROP, keysd)
    sweeps = [e for e in events if e["ev"] == "sweep"]
    cov = {
        "states": sum(s.get("states", 0) for s in stats) or 1,
        "transitions": sum(s.get("transitions", 0) for s in stats) or 1,
        "traces_validated_against_impl": len(packs),
        "samples": [cases[0] if cases else {},
                    [{x: e[x] for x in e if x not in ("forms",)} for e in events if e.get("c") == (cases[0]["id"] if cases else "")][:8],
                    [{x: e[x] for x in ("c", "form", "enc", "lbl", "n", "same", "err", "diff", "panic")} for e in eds[:6]]],
        "mc_configs": stats,
        "exhaustive": bool(stats) and all(s.get("completed", True) for s in stats),
        "model_counterexamples": cex_kinds,
        "meta_kept_in_model": meta_kept,
        "cases_generated": stats[0]["cases"] if stats else 0,
        "cases_executed": len(packs),
        "opens_executed": len(opens),
        "opens_by_api": {a: sum(1 for e in opens if e["api"] == a) for a in sorted(set(e["api"] for e in opens))},
        "witness_recipient_opened": w_open_member,
        "witness_nonrecipient_refused": w_refused,
        "witness_wrong_keys_extra": sum(1 for e in opens if e["by"] and e["by"][0].startswith("x:")),
        "witness_plain_slate_visible": w_plain_seen,
        "witness_plain_sender_visible": w_plain_sender,
        "edit_sweeps": [{x: s[x] for x in ("c", "form", "enc", "len", "npos", "complete", "probe")} for s in sweeps if s["npos"] > 400 or s["probe"]][:80],
        "edit_sweeps_total": len(sweeps),
        "edit_sweeps_complete": sum(1 for s in sweeps if s["complete"]),
        "edits_executed": nedits,
        "edits_by_class": per,
        "edit_labels_model": len(model_labels),
        "edit_labels_executed": len(real_labels),
        "edit_labels_model_not_instantiated": model_missing,
        "edit_labels_beyond_model": real_extra[:60],
        "events_validated": len(events),
        "layer_m_nonconformances": len(nonconfs),
        "layer_m_first": nonconfs[:3],
        "layer_m_evaluated": m_ok,
        "harness_build_s": round(build_s, 1),
        "harness_run_s": round(t2 - t1, 1),
        "trace_validation_s": round(t3 - t2, 1),
    }
    log("  %d cases, %d opens (%d recipients opened, %d non-recipients refused), %d edits in %d classes, %d lines validated" % (
        len(packs), len(opens), w_open_member, w_refused, nedits, len(real_labels), len(events)))
    finish(PROP, tier, "model_checking", cov, ASSUME, t0, known, new)
