#!/bin/bash
# lib/run_some.sh <tier> <ids...> : run the given checks sequentially, one summary line each in work/run_some_<tier>.log
cd "$(dirname "$0")/.."
tier=$1; shift
mkdir -p work
out=work/run_some_$tier.log
: > $out
for p in "$@"; do
  s=$(date +%s)
  timeout 4000 ./check $p --tier $tier > work/run_$p.$tier.out 2>&1
  rc=$?
  e=$(date +%s)
  nc=$(grep -c "^NONCONFORMANCE" work/run_$p.$tier.out)
  kf=$(grep -c "^KNOWN-FINDING" work/run_$p.$tier.out)
  vi=$(grep -c "^VIOLATION" work/run_$p.$tier.out)
  echo "$p rc=$rc wall=$((e-s))s violations=$vi known=$kf nonconf=$nc" >> $out
  grep "^VIOLATION\|^  key\|^NONCONF\|TOOL-ERROR" work/run_$p.$tier.out | cut -c1-300 >> $out
done
echo done >> $out
