import sys, json, re
sys.path.insert(0, '/verif/lib')
from common import tlc_printed
out = open(sys.argv[1]).read()
c = tlc_printed(out, "CEX")
seen = {}
for x in c:
    h = x["hist"]
    sig = (x["inv"], tuple((e.get("ev"), e.get("w", ""), e.get("sl", e.get("key", "")), e.get("stage", ""), e.get("late", ""), e.get("tamper", "")) for e in h))
    k = (x["inv"], sig[1][-1])
    if k not in seen or len(h) < len(seen[k]):
        seen[k] = h
for k, h in sorted(seen.items(), key=lambda kv: str(kv[0])):
    print(k)
    print("    ", " ; ".join("%s(%s,%s%s%s)" % (e.get("ev"), e.get("w", ""), e.get("sl", e.get("key", e.get("id", ""))), "," + str(e.get("stage")) if e.get("stage") else "", ",late" if e.get("late") else "") for e in h))
