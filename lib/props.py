"""Dispatch: property id -> lib/prop_<ID>.py (each module has run(tier, replay_path, t0)
and a MANIFEST_ENTRY dict used by lib/gen_manifest.py)."""
import importlib, os, sys
from common import *


def dispatch(prop, tier, replay_path, t0):
    here = os.path.dirname(os.path.abspath(__file__))
    if not os.path.exists(os.path.join(here, "prop_%s.py" % prop)):
        print("unknown property", prop)
        sys.exit(2)
    mod = importlib.import_module("prop_%s" % prop)
    return mod.run(tier, replay_path, t0)
