"""Per-property parameters and dispatch."""
import json, os, sys
from common import *
import wallet_checks

STD_SETUP = {"nfund": 2, "pad": 3}
WALLET_ASSUME = [
    "LMDB commit atomicity and the file system are trusted below the hook points",
    "secp256k1 / bulletproof / ed25519 implementations are trusted (they are used as oracles)",
    "values are multiples of the unit U = 1e6 nanogrin (fee base set to U); nanogrin-granular arithmetic is checked by C01",
    "the projection alpha (harness/src/world.rs) reads the store through the public WalletBackend trait",
]

WALLET = {
    "C03": dict(quick_cfgs=["MC_C03_quick.cfg"], thorough_cfgs=["MC_C03.cfg", "MC_C03_late.cfg"],
                quick_n=60, thorough_n=600, setup=STD_SETUP, assumptions=WALLET_ASSUME,
                extra_behaviours=[]),
}


def dispatch(prop, tier, replay_path, t0):
    if prop in WALLET:
        p = dict(WALLET[prop])
        if replay_path:
            info = json.load(open(replay_path))["info"]
            evs = [e for e in info["events"] if e["ev"] != "reset"]
            p["extra_behaviours"] = [evs]
            p["setup"] = info.get("setup", p["setup"])
            p["quick_cfgs"] = p["thorough_cfgs"] = []
        return wallet_checks.run(prop, tier, p, t0)
    print("unknown property", prop)
    sys.exit(2)
