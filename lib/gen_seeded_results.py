import json, glob, os
rows = []
for d in sorted(glob.glob("/verif/seeded/C*-*")):
    m = json.load(open(os.path.join(d, "meta.json")))
    rows.append((os.path.basename(d), m))
out = ["# Seeded changes: what was tried and which check catches it", "",
       "Each directory holds `patch.diff` (the change to mimblewimble/grin-wallet), the demonstration (fails with the change, passes without it)",
       "and `meta.json`. All changes compile and pass the pinned suite (63 tests). They were written by fresh sub-agents that saw only the",
       "property text and a scratch worktree. `caught_by` lists check:tier:violation-key. The notes say what had to be strengthened when a",
       "change was missed at first; the strengthening is generic (stimulus classes, monitors), never keyed to the change.", "",
       "| id | property | what the change does | needs | caught by | notes |", "|---|---|---|---|---|---|"]
for name, m in rows:
    caught = "<br>".join(m.get("caught_by", [])) or "**missed**"
    notes = m.get("what_was_run", "").split("were run. ", 1)[-1]
    out.append("| %s | %s | %s | %s | %s | %s |" % (name, m.get("breaks_property"), m.get("summary", "").replace("|", "/")[:400],
                                                  m.get("needs", "").replace("|", "/")[:300], caught, notes.replace("|", "/")))
open("/verif/seeded/RESULTS.md", "w").write("\n".join(out) + "\n")
print(len(rows), "seeded changes")
