#!/bin/bash
# lib/try_seeded.sh <seeded-id e.g. C12-2> "<checks>" [tier] : apply seeded/<id>/patch.diff to a private copy of /repo
# (+ a private copy of /verif pointed at it) under /tmp/sx and run the named checks there.  /repo is never touched.
ID=$1; CHECKS=$2; TIER=${3:-quick}; SX=${SX:-/tmp/sx}
mkdir -p $SX
rsync -a --delete --exclude target --exclude .git /repo/ $SX/repo/
rsync -a --delete --exclude harness/target --exclude work --exclude .git --exclude evidence /verif/ $SX/verif/
mkdir -p $SX/verif/evidence $SX/verif/work
sed -i "s#path = \"/repo/#path = \"$SX/repo/#g" $SX/verif/harness/Cargo.toml
(cd $SX/repo && patch -p1 -F3 -s < /verif/seeded/$ID/patch.diff) || { echo "patch does not apply"; exit 2; }
for c in $CHECKS; do
  echo "== $ID: check $c ($TIER) on the seeded tree"
  (cd $SX/verif && timeout 3000 ./check $c --tier $TIER 2>&1 | grep -E "^VIOLATION|^  key|^NONCONF|: ok|VIOLATIONS|TOOL-ERROR" | cut -c1-220 | head -12)
done
