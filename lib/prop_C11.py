"""C11 Payment proofs are sound end to end.

Pipeline (all verdicts are TLC's; this file only moves data around):
  MC      tlc model-checks spec/MCPaymentProof.tla over the whole configured case space
          (proof-carrying sends x alterations of the reply, each run through its program of
          init / lock / receive / tamper / finalize / export / verify-probes / mine / fork):
          with Dev = {} (repaired code model) no ProofSound monitor breaks, every single-field
          mutation invalidates the proof, the verifier model says yes iff the proof is valid and
          on chain, the honest path is live; witnesses are reachable.
  GEN     the same model with the deviations of the pinned code (Dev from the known-findings
          status) prints a -seed'ed stratified sample of cases (tag CASE) with their programs and
          the monitors the model breaks (model counter-examples).
  RUN     harness/replay_proof executes every case on real wallets over a real chain (one world
          per case) and records the observed proof data in the vocabulary of the spec.
  TV      tlc validates the recorded steps under spec/TracePaymentProof.tla: Layer P
          (FinalizeSound, ExportVerifies, MutantRefused, OffChainRefused on OBSERVED data)
          prints VIOL, Layer M (observation = Step(model state, instruction)) prints NONCONF.
  SELF    binding self-test on the recorded trace: a flipped result / a changed observed field
          must be rejected by TLC (Layer P resp. Layer M).
"""
import json, os, re, time, collections, concurrent.futures
from common import *

PROP = "C11"
MANIFEST_ENTRY = dict(
    cat="model_checking", ref="DESIGN.md 2.1, 4 C11, Appendix A", engine="paymentproof-tla",
    text="TLC model-checks a code-shaped TLA+ model of the payment-proof path (init_send_tx proof fields, lock_tx_context stored proof info, "
         "receive_tx recipient signature, verify_slate_payment_proof, update_stored_tx sender signature, retrieve_payment_proof, "
         "verify_payment_proof) over every case of the space amounts (with change / exact / two inputs) x fee included x change outputs x source "
         "account x sender's active account at init and at finalize x late lock / lock with the sent slate / lock with the reply / never locked x "
         "requested recipient address x recipient's destination and active account x 14 alterations of the reply (proof stripped, signature absent / "
         "junk / by another key / by another key that is also named as recipient / over another amount, excess or sender by the real key, either "
         "address replaced) x owner or foreign finalize, each followed, for unaltered replies, by the probes of the exported proof (off chain, mined, "
         "three verifying wallets, 18 single-field mutations incl. swapped, foreign-key, other-message, bit-flipped and non-canonical signatures, 3 "
         "multi-field forgeries, kernel forked away, mined again). A seeded stratified sample of the cases is executed on real wallets over a real "
         "chain; every observed step is judged by the same TLA+ predicates (finalize succeeds only on the requested recipient's signature over the "
         "actual amount, final excess and sender address; the exported proof verifies; every single-field change and every off-chain kernel is "
         "refused) and compared field by field with the model (Layer M).",
    technique="TLC model checking / case generation (spec/MCPaymentProof.tla over spec/PaymentProof.tla) + replay on the real code "
              "(harness/replay_proof on vharness::world::World) + TLC trace validation (spec/TracePaymentProof.tla)",
    note="Trusted: ed25519-dalek, secp256k1, grin_chain; the projection in harness/src/bin/replay_proof/main.rs, which names addresses and "
         "excesses by comparing bytes and turns a signature into the term (key, amount, excess, sender) under which an independent ed25519 "
         "verification accepts it - it judges nothing. Values are whole units of 1e6 nanogrin. Slates are handed over in memory (the wire "
         "encodings are C08's business). The verdict comes only from Layer-P predicates evaluated by TLC on data observed from the real code.")

ASSUME = [
    "ed25519-dalek (also used by the harness to classify signatures and to forge with keys it derived through owner::get_slatepack_secret_key), secp256k1 and grin_chain are trusted",
    "an address is named by comparing its public key with address 0 of every account of the three wallets; an excess by comparing it with the sum / parts of the participants' public excesses and a coinbase kernel",
    "'the sender's address' of a payment is the sender_address of the slate init_send_tx returned; 'the actual amount' its amount; 'the final kernel excess' the kernel of the transaction finalize returned",
    "slates travel in memory between the wallets (no serialisation); values are whole units U = 1e6 nanogrin, change divisible by the number of change outputs (C01 owns the remainder)",
    "every case runs in a copy of one funded template world (three wallets, two accounts, seven blocks) built once per run",
]

# deviation of the code model -> the known-finding key that stands for it.  A deviation is switched
# on in the model (MC counter-examples, Layer M) while that key has status "known".
DEVIATIONS = collections.OrderedDict([
    ("LateLockTrustsReply", "C11/FinalizeSound/late/rsig-by-other-key"),
    ("StrippedUnnoticed", "C11/FinalizeSound/late/proof-stripped"),
    ("LockTrustsSlate", "C11/FinalizeSound/S2/rsig-by-other-key"),
    ("SenderKeyFromActive", "C11/ExportVerifies/verify-err:proof/src#active/sa+ss"),
])
TIERS = {"quick": "PaymentProof_quick.cfg", "thorough": "PaymentProof_thorough.cfg"}
CHUNK = 2500          # trace lines per TLC trace-validation process
MONITORS = ["FinalizeSound", "ExportVerifies", "MutantRefused", "OffChainRefused"]
WITNESSES = ["FinalizeOk", "ForgeryRefused", "VerifyOk", "MutantRefused", "OffChainRefused"]


def current_dev():
    known = {k["key"] for k in load_known() if k.get("property") == PROP and k.get("status") == "known"}
    return [d for d, key in DEVIATIONS.items() if key in known]


def tla_set(xs):
    return "{" + ", ".join('"%s"' % x for x in xs) + "}"


def instantiate(cfg_name, d, dev, suffix=""):
    """copy spec/<cfg_name> into the work dir with the Dev constant of this run"""
    src = open(os.path.join(SPEC, cfg_name)).read()
    out, n = re.subn(r"(?m)^(\s*Dev\s*=\s*)\{[^}]*\}", lambda m: m.group(1) + tla_set(dev), src)
    if n != 1:
        raise ToolError("no Dev line in " + cfg_name)
    path = os.path.join(d, cfg_name.replace(".cfg", suffix + ".cfg"))
    with open(path, "w") as f:
        f.write(out)
    return path


def cfg_constants(cfg_name):
    src = open(os.path.join(SPEC, cfg_name)).read()
    return {m.group(1): m.group(2).strip() for m in re.finditer(r"(?m)^\s*(\w+)\s*=\s*(.+)$", src) if m.group(1) != "Dev"}


def strip_cases(out):
    return re.sub(r'(?m)^<<"CASE".*$\n', "", out)


def model_check(cfg, dev, d, tier, want_cases, timeout=1500):
    path = instantiate(cfg, d, dev, "_dev" if dev else "_repaired")
    tag = "mc_%s_%s_%s" % (PROP, tier, "dev" if dev else "repaired")
    r = run_tlc("MCPaymentProof.tla", path, tag, extra=["-seed", str(seed())], timeout=timeout,
                keep_tags=("CASE",), max_keep=10 ** 9 if want_cases else 1)
    bad = sorted(set(x for t in r["violated"] for x in t if x))
    if bad:
        log(strip_cases(r["out"])[:6000])
        raise ToolError("the specification is inconsistent: %s violated in MCPaymentProof (%s, Dev=%s)" % (bad, cfg, dev))
    if not r["completed"]:
        log(strip_cases(r["out"])[-3000:])
        raise ToolError("TLC failed on MCPaymentProof %s" % cfg)
    cases = parse_printed(r["printed"]["CASE"], "CASE") if want_cases else []
    if want_cases and len(cases) != r["printed_counts"]["CASE"]:
        raise ToolError("could not parse %d CASE lines" % (r["printed_counts"]["CASE"] - len(cases)))
    stat = {"cfg": cfg, "constants": cfg_constants(cfg), "dev": dev, "seed": seed(), "states": r["states"], "transitions": r["transitions"],
            "depth": r["depth"], "completed": r["completed"], "cases_emitted": len(cases), "wall_s": round(r["wall_s"], 1),
            "invariants_checked": ["Inv_Sound", "Inv_Mutants", "Inv_VerifyIff", "Inv_Honest"]}
    return stat, cases


def witnesses():
    """every vacuity witness of MCPaymentProof must be reachable: the union of the WIT sets TLC prints at the end of
    the cases of the witness configuration must be complete"""
    r = run_tlc("MCPaymentProof.tla", "PaymentProof_wit.cfg", "mc_%s_wit" % PROP, timeout=600, keep_tags=("WIT",))
    got = set()
    for w in parse_printed(r["printed"]["WIT"], "WIT"):
        got |= set(w)
    if not r["completed"] or set(WITNESSES) - got:
        log(r["out"][-3000:])
        raise ToolError("vacuous model: witnesses not reachable: %s" % sorted(set(WITNESSES) - got))
    return sorted(got)


# ------------------------------------------------------------------ run + validate
def kind_of(c):
    return "late" if c["late"] else c["lock"]


def key_of(v):
    if v["m"] == "FinalizeSound":
        return "%s/%s/%s/%s" % (PROP, v["m"], v["kind"], v["cls"])
    return "%s/%s/%s" % (PROP, v["m"], v["cls"])


def validate_chunks(nd, tag, cfgs):
    """split the trace at `case` lines into chunks, one TLC process each.
    Returns (viols, nonconfs, stats, nlines)"""
    d = os.path.dirname(nd)
    chunks, cur, n = [], [], 0
    with open(nd) as f:
        for line in f:
            if not line.strip():
                continue
            n += 1
            if len(cur) >= CHUNK and '"ev":"case"' in line[:400]:
                chunks.append(cur)
                cur = []
            cur.append(line)
    if cur:
        chunks.append(cur)
    paths = []
    for i, ch in enumerate(chunks):
        p = os.path.join(d, "chunk%04d.ndjson" % i)
        with open(p, "w") as f:
            f.writelines(ch)
        paths.append(p)
    tv, tvp = cfgs

    def one(ip):
        i, p = ip
        return validate_trace("TracePaymentProof.tla", tv, p, "%s_%s_%04d" % (PROP, tag, i), cfg_fallback=tvp, timeout=1500)

    viols, nonconfs, stats = [], [], collections.Counter()
    with concurrent.futures.ThreadPoolExecutor(max_workers=max(1, min(JOBS, 8))) as ex:
        for (vs, ncs, m_ok, out) in ex.map(one, list(enumerate(paths))):
            viols += vs
            nonconfs += ncs
            for s in tlc_printed(out, "STAT"):
                stats.update(s)
    return viols, nonconfs, dict(stats), n


def run_cases(cases, tag, cfgs):
    nd = replay("replay_proof", {"cases": [{"c": c["c"], "prog": c["prog"]} for c in cases]}, PROP + "_" + tag,
                extra_args=["--seed", str(seed())])
    viols, nonconfs, stats, n = validate_chunks(nd, tag, cfgs)
    expect = sum(len(c["prog"]) + 1 for c in cases)
    if n != expect:
        raise ToolError("replay_proof recorded %d lines for %d cases (%d expected)" % (n, len(cases), expect))
    return viols, nonconfs, stats, nd, n


def self_test(nd, cfgs, d):
    """binding self-test: corrupt the recorded trace of one honest and one refused case; the TLA+ side must object"""
    evs = read_ndjson(nd)
    by_b = collections.OrderedDict()
    for e in evs:
        by_b.setdefault(e["b"], []).append(e)
    honest = next((v for v in by_b.values() if any(e["ev"] == "verify" and e["res"] == "ok" and e.get("a") == "none" for e in v)
                   and any(e["ev"] == "verify" and e["res"] == "err:proof" and e.get("onchain") and e.get("a") in ("amt_plus", "rs_third") for e in v)), None)
    refused = next((v for v in by_b.values() if v[0]["c"]["tam"] not in ("none", "raddr", "saddr") and
                    any(e["ev"] == "finalize" and e["res"] == "err:proof" for e in v)), None)
    if honest is None or refused is None:
        raise ToolError("self-test: no honest / refused case in the trace")
    results = {}

    def run(name, lines):
        p = os.path.join(d, "selftest_%s.ndjson" % name)
        with open(p, "w") as f:
            for e in lines:
                f.write(json.dumps(e) + "\n")
        vs, ncs, _, _ = validate_trace("TracePaymentProof.tla", cfgs[0], p, "%s_self_%s" % (PROP, name), cfg_fallback=cfgs[1], timeout=600)
        return vs, ncs

    base = json.loads(json.dumps(honest + refused))
    vs, ncs = run("clean", base)
    results["clean"] = {"viol": len(vs), "nonconf": len(ncs)}
    # (a) a mutated proof reported as accepted
    t = json.loads(json.dumps(base))
    e = next(x for x in t if x["ev"] == "verify" and x["res"] == "err:proof" and x.get("onchain") and x.get("a") in ("amt_plus", "rs_third"))
    e["res"] = "ok"
    vs, ncs = run("mutant_accepted", t)
    results["mutant_accepted"] = sorted(set(v["m"] for v in vs))
    ok_a = "MutantRefused" in results["mutant_accepted"]
    # (b) a refused forgery reported as finalized
    t = json.loads(json.dumps(base))
    e = next(x for x in t if x["ev"] == "finalize" and x["res"] == "err:proof" and x["b"] == refused[0]["b"])
    e["res"] = "ok"
    e["kern"] = "final"
    vs, ncs = run("forgery_accepted", t)
    results["forgery_accepted"] = sorted(set(v["m"] for v in vs))
    ok_b = "FinalizeSound" in results["forgery_accepted"]
    # (c) the honest proof reported as refused while on chain
    t = json.loads(json.dumps(base))
    e = next(x for x in t if x["ev"] == "verify" and x["res"] == "ok" and x.get("a") == "none")
    e["res"] = "err:proof"
    vs, ncs = run("honest_refused", t)
    results["honest_refused"] = sorted(set(v["m"] for v in vs))
    ok_c = "ExportVerifies" in results["honest_refused"]
    # (d) one observed field changed (the stored recipient signature): Layer M must notice
    t = json.loads(json.dumps(base))
    e = next(x for x in t if x["ev"] == "receive" and x["res"] == "ok")
    e["proof"]["rs"]["k"] = "w3:a0"
    vs, ncs = run("field_changed", t)
    results["field_changed"] = {"viol": len(vs), "nonconf": len(ncs)}
    ok_d = len(ncs) > 0
    if not (ok_a and ok_b and ok_c and ok_d):
        raise ToolError("binding self-test failed: %s" % json.dumps(results))
    return results


def run(tier, replay_path, t0):
    build_s = build_harness(["replay_proof"])
    dev = current_dev()
    d = workdir("cfg_%s_%s" % (PROP, tier))
    cfgs = (instantiate("TracePaymentProof.cfg", d, dev), instantiate("TracePaymentProofP.cfg", d, []))
    log("  code model deviations switched on (known findings pending a fix): %s" % (dev or "none"))

    stats, wit = [], []
    if replay_path:
        info = json.load(open(replay_path))["info"]
        cases = [dict(c=info["c"], prog=info["prog"], mv=info.get("mv", []), fin=info.get("fin", ""), clean=info.get("clean", False))]
    else:
        cfg = TIERS[tier]
        # three TLC runs side by side: witnesses, the repaired model (must satisfy every monitor on the whole
        # case space), the code model with the pinned deviations (generation + model counter-examples)
        with concurrent.futures.ThreadPoolExecutor(max_workers=3) as ex:
            f_wit = ex.submit(witnesses)
            f_rep = ex.submit(model_check, cfg, [], d, tier, False) if dev else None
            f_dev = ex.submit(model_check, cfg, dev, d, tier, True)
            wit = f_wit.result()
            if f_rep:
                st, _ = f_rep.result()
                log("  MC %s, repaired model (Dev = {}): %d states, %d transitions, all invariants hold (%.0fs)" % (cfg, st["states"], st["transitions"], st["wall_s"]))
                stats.append(st)
            st, cases = f_dev.result()
        log("  MC %s, code model (Dev = %s): %d states, %d transitions; %d cases emitted, %d model counter-examples (%.0fs)" % (
            cfg, dev or "{}", st["states"], st["transitions"], len(cases), sum(1 for c in cases if c["mv"]), st["wall_s"]))
        stats.append(st)
        cases.sort(key=lambda c: json.dumps(c["c"], sort_keys=True))

    t1 = time.time()
    viols, nonconfs, tstat, nd, nlines = run_cases(cases, tier + "_main", cfgs)
    log("  %d cases (%d steps) executed on the real code and validated (%.0fs): %d monitor failures, %d Layer-M mismatches" % (
        len(cases), nlines - len(cases), time.time() - t1, len(viols), len(nonconfs)))
    log("  witnesses on the validated traces: %s" % json.dumps(tstat))
    # model counter-examples vs. the real code
    real = collections.defaultdict(set)
    for v in viols:
        real[v["b"]].add(v["m"])
    agree = sum(1 for i, c in enumerate(cases) if sorted(c.get("mv", [])) == sorted(real.get(i, set())))
    model_cex = collections.Counter("%s/%s" % (kind_of(c["c"]), c["c"]["tam"]) for c in cases if c.get("mv"))

    keys = {}
    for v in viols:
        k = key_of(v)
        c = cases[v["b"]]
        if k not in keys:
            keys[k] = {"count": 0, "monitor": v["m"], "class": v["cls"], "c": c["c"], "prog": c["prog"], "step": {"ev": v["ev"], "a": v["a"], "line": v["line"]},
                       "observed": v["info"], "model_predicts": c.get("mv", [])}
        keys[k]["count"] += 1
    known, new = classify(PROP, keys)

    selfres = {}
    if not replay_path and not new:
        # vacuity: every kind of step the monitors speak about was observed (a red run is reported as such instead)
        need = ["finalize_ok", "forgery_refused", "export_ok", "verify_ok", "mutant_refused", "offchain_refused"]
        dead = [k for k in need if not tstat.get(k)]
        if dead:
            raise ToolError("vacuous run: no observed step of kind %s" % dead)
        t2 = time.time()
        selfres = self_test(nd, cfgs, d)
        log("  binding self-test: corrupted traces rejected (%.0fs): %s" % (time.time() - t2, json.dumps(selfres)))

    if nonconfs:
        log("NONCONFORMANCE: %d observed steps differ from the code model Step (Dev=%s) (Layer M); first: %s" % (
            len(nonconfs), dev, json.dumps(nonconfs[0])[:900]))
        log("  (the deviations of the code model follow the status of the keys %s in known_findings: after committing a fix set its keys to \"fixed\")" % sorted(DEVIATIONS.values()))

    evs_sample = []
    step = max(1, len(cases) // 6)
    for i in list(range(0, len(cases), step))[:6]:
        evs_sample.append({"case": cases[i]["c"], "steps": len(cases[i]["prog"]), "model_fin": cases[i].get("fin"), "monitors_broken": sorted(real.get(i, set()))})
    strata = collections.Counter("%s/%s" % (kind_of(c["c"]), c["c"]["tam"]) for c in cases)
    cov = {
        "states": sum(s["states"] for s in stats) or 1,
        "transitions": sum(s["transitions"] for s in stats) or 1,
        "traces_validated_against_impl": len(cases),
        "samples": evs_sample,
        "mc_configs": stats,
        # the MC runs explore the configured case space completely; the replayed cases are a seeded stratified sample of it
        "exhaustive": False,
        "mc_configs_completed": bool(stats) and all(s["completed"] for s in stats),
        "model_witnesses_reachable": wit,
        "trace_lines_validated": nlines,
        "trace_witnesses": tstat,
        "cases_by_stratum": dict(strata),
        "clean_cases": sum(1 for c in cases if c.get("clean")),
        "code_model_deviations": dev,
        "model_counter_examples_by_stratum": dict(model_cex),
        "real_code_violations_by_monitor": dict(collections.Counter(v["m"] for v in viols)),
        "cases_where_model_and_code_break_the_same_monitors": agree,
        "layer_m_nonconformances": len(nonconfs),
        "layer_m_first": nonconfs[:3],
        "violation_keys": {k: v["count"] for k, v in keys.items()},
        "binding_self_test": selfres,
        "harness_build_s": round(build_s, 1),
    }
    finish(PROP, tier, "model_checking", cov, ASSUME, t0, known, new)
