"""C20 Background refresh never clobbers concurrent wallet operations."""
import json, random, itertools, subprocess, os
from wallet_checks import mc_and_gen, select_behaviours
from wallet_common import *
from common import *

MANIFEST_ENTRY = dict(
    cat="model_checking", ref="DESIGN.md 2.9, 3.6, 4 C20", engine="wallet-tla",
    text="Scenarios (a reachable wallet state with pending transactions, one multi-section run R of update_wallet_state, of the background updater's own loop (owner_updater::Updater::run, stopped after one pass) or of scan, 1..2 further operations or node events) are drawn from the transitions of the bounded Wallet model; spec/Conc.tla is the thread structure at wallet-lock granularity and TLC enumerates EVERY schedule of it (for each other operation, the number of lock acquisitions R has completed when it runs) and checks the schedules never deadlock; the harness executes each schedule on the real code - R in its own real thread parked in the wallet_lock! hook before each acquisition, released one section at a time - and every serial order of the same operations, and TLC (spec/TraceConc.tla) judges that the projected final state of every interleaving equals that of some serial order and that no schedule hangs.",
    technique="TLC enumeration of all lock-point schedules (spec/Conc.tla) + deterministic lock-point scheduler on the real code + TLC trace validation of serializability (spec/TraceConc.tla)",
    note=WALLET_NOTE + " Granularity is the wallet-lock acquisition: node calls made between two acquisitions are not separately interleaved; the section bodies are those of Wallet.tla's RefreshFull/Scan step programs.")

PARAMS = dict(quick_cfgs=["MC_C03_quick.cfg"], thorough_cfgs=["MC_C03_quick.cfg", "MC_C17_quick.cfg"],
              quick_scen=4, thorough_scen=60, quick_sched=16, thorough_sched=120, setup=STD_SETUP)
OPS = {"init_send", "lock", "receive", "finalize", "cancel", "mine", "post"}

_I = {"ev": "init_send", "w": "w1", "sl": "s1", "amt": 1000}
_L = {"ev": "lock", "w": "w1", "sl": "s1", "stage": "S1"}
_R = {"ev": "receive", "w": "w2", "sl": "s1"}
_F = {"ev": "finalize", "w": "w1", "sl": "s1", "stage": "S2"}
_P = {"ev": "post", "sl": "s1"}
_M = {"ev": "mine", "txs": ["s1"]}
_M0 = {"ev": "mine", "txs": []}
_MISSING = [_I, _L, _R, _F, _P, _M, {"ev": "refresh", "w": "w2"}, {"ev": "refresh", "w": "w1"},
            {"ev": "init_send", "w": "w1", "sl": "s2", "amt": 1000}, {"ev": "diverge", "w": "w2", "kind": "delete", "key": "a0c0"}]
# directed scenarios: always executed with ALL their schedules.  The first 8 are, in this
# order, the scenarios of spec/MCConc.tla: for them the section-level model predicts which
# schedules are serializable (Layer M of C20).
SCRIPTED = [
    {"prefix": [_I, _L, _R, _F, _P], "r": {"ev": "refresh", "w": "w2"}, "ops": [_M]},
    {"prefix": [_I, _L, _R, _F, _P], "r": {"ev": "refresh", "w": "w2"}, "ops": [_M, {"ev": "cancel", "w": "w2", "id": 0}]},
    {"prefix": [_I, _L, _R, _F, _P], "r": {"ev": "refresh", "w": "w1"}, "ops": [_M]},
    {"prefix": [_I, _L, _R], "r": {"ev": "refresh", "w": "w1"}, "ops": [_F, _P]},
    {"prefix": [_I], "r": {"ev": "refresh", "w": "w1"}, "ops": [_L, {"ev": "cancel", "w": "w1", "id": 2}]},
    {"prefix": [_I, _L, _R, _F, _P], "r": {"ev": "scan", "w": "w2", "start": 1, "del": True}, "ops": [_M]},
    {"prefix": [_I, _L, _R, _F, _P], "r": {"ev": "scan", "w": "w1", "start": 1, "del": False}, "ops": [_M, {"ev": "cancel", "w": "w1", "id": 2}]},
    {"prefix": [_I, _L, _R, _F, _P], "r": {"ev": "refresh", "w": "w2"}, "ops": [{"ev": "cancel", "w": "w2", "id": 0}, _M]},
    {"prefix": [_I, _L, _R, _F, _P, _M], "r": {"ev": "refresh", "w": "w1"}, "ops": [{"ev": "init_send", "w": "w1", "sl": "s2", "amt": 1000}]},
    {"prefix": [dict(_I, ttlb=1), _L, _R], "r": {"ev": "refresh", "w": "w1"}, "ops": [_M0, _F]},
    # R is the background updater itself (owner_updater::Updater::run, one pass: stop_updater arrives while
    # the first pass is under way); the serial reference of a pass is a refresh
    {"prefix": [_I, _L, _R, _F, _P], "r": {"ev": "refresh", "w": "w2", "via": "updater"}, "ops": [_M]},
    {"prefix": [_I], "r": {"ev": "refresh", "w": "w1", "via": "updater"}, "ops": [_L, {"ev": "cancel", "w": "w1", "id": 2}]},
    {"prefix": [_I, _L, _R], "r": {"ev": "refresh", "w": "w1", "via": "updater"}, "ops": [_F, _P]},
    # R has something to RESTORE (a record of the recipient is missing) while an operation that takes a new key
    # (a second receive) runs in between: records, log entries and key indices of the two must both survive
    {"prefix": _MISSING, "r": {"ev": "scan", "w": "w2", "start": 1, "del": False}, "ops": [{"ev": "receive", "w": "w2", "sl": "s2"}]},
    {"prefix": _MISSING, "r": {"ev": "refresh", "w": "w2"}, "ops": [{"ev": "receive", "w": "w2", "sl": "s2"}]},
]


def schedules(nsec, nops, limit, rnd):
    """all schedules from TLC (spec/Conc.tla); sampled by seed if more than limit"""
    cfg = os.path.join(workdir("conc_cfg"), "Conc_%d_%d.cfg" % (nsec, nops))
    with open(cfg, "w") as f:
        f.write("CONSTANTS\n  NSections = %d\n  NOps = %d\nSPECIFICATION Spec\nINVARIANT Emit\nINVARIANT NoDeadlock\nCHECK_DEADLOCK FALSE\n" % (nsec, nops))
    r = run_tlc("Conc.tla", cfg, "conc_%d_%d" % (nsec, nops), workers=1, timeout=300, keep_tags=("SCHED",), max_keep=200000)
    if r["violated"] or not r["completed"]:
        log(r["out"][-2000:])
        raise ToolError("Conc.tla: deadlock or TLC failure")
    sch = [json.loads(json.loads('"' + l.split('", "', 1)[1].rsplit('">>', 1)[0] + '"')) for l in r["printed"]["SCHED"]]
    total = len(sch)
    sch = [s if isinstance(s, list) else [] for s in sch]
    if len(sch) > limit:
        # keep the boundary schedules and a seeded sample of the rest
        keep = [s for s in sch if all(x in (0, nsec) for x in s)]
        rest = [s for s in sch if s not in keep]
        sch = keep + rnd.sample(rest, max(0, limit - len(keep)))
    return sch, total, r["states"], r["transitions"]


def diff_signature(final, serials, rw):
    """which tables differ from the NEAREST serial outcome, by role of the wallet (R = the
    wallet running the multi-section operation, O = the other one): the identity of a
    finding is (kind of R, tables clobbered), detailed fields go into the report only"""
    best = None
    for s in serials:
        d, detail = set(), set()
        for w in set(final.get("w", {})) | set(s.get("w", {})):
            role = "R" if w == rw else "O"
            fw, sw = final.get("w", {}).get(w, {}), s.get("w", {}).get(w, {})
            if fw.get("txs") != sw.get("txs"):
                d.add(role + ".txs")
            for tab in ("outs", "idx"):
                ft, stt = fw.get(tab, {}), sw.get(tab, {})
                for k in set(ft) | set(stt):
                    a, b = ft.get(k), stt.get(k)
                    if a == b:
                        continue
                    d.add(role + "." + tab)
                    if a is None or b is None:
                        detail.add("%s.%s:presence" % (w, tab))
                    else:
                        for fld in set(a) | set(b):
                            if a.get(fld) != b.get(fld):
                                detail.add("%s.%s.%s" % (w, tab, fld))
            if sorted(fw.get("ctxs", [])) != sorted(sw.get("ctxs", [])):
                d.add(role + ".ctxs")
            if fw.get("files") != sw.get("files"):
                d.add(role + ".files")
        if best is None or len(d) < len(best[0]) or (len(d) == len(best[0]) and len(detail) < len(best[1])):
            best = (d, detail)
    return "+".join(sorted(best[0])), "+".join(sorted(best[1]))


def more_log_entries_than_any_serial(e):
    def logs(p):
        return sum(int(a.get("log", 0)) for a in p["w"].get(e["w"], {}).get("idx", {}).values())
    try:
        return logs(e["final"]) > max(logs(s) for s in e["serials"])
    except Exception:
        return False


def updater_lifecycle(tier, rnd):
    """spec/Updater.tla: TLC checks the life cycle of the background updater (mutual exclusion of runs, a stop honoured
    within one more pass, termination of a stopped run under fairness), generates driver scripts, the scripts run on the
    real api::Owner (the wallet's own updater threads parked at every lock point) and TLC validates the observed thread
    events against the model.  Conformance only: none of the listed properties is decided here."""
    out = {}
    try:
        r = run_tlc("Updater.tla", "MC_Updater.cfg", "upd_mc", workers=4, timeout=600, keep_tags=())
        out["mc"] = {"states": r["states"], "transitions": r["transitions"], "completed": r["completed"], "violated": r["violated"],
                     "checked": ["OneRunner", "HolderRuns", "StopWithinOnePass", "FlagCoversRun", "StoppedEnds (liveness, weak fairness)"]}
        g = run_tlc("MCUpdater.tla", "MC_Updater_gen.cfg", "upd_gen", workers=4, timeout=600, keep_tags=("SCRIPT",), max_keep=100000)
        scripts = parse_printed(g["printed"]["SCRIPT"], "SCRIPT")
        ser = sorted(set(json.dumps(x) for x in scripts))
        pref = set()
        for x in ser:
            y = json.loads(x)
            for i in range(1, len(y)):
                pref.add(json.dumps(y[:i]))
        maximal = [json.loads(x) for x in ser if x not in pref]
        n = 20 if tier == "quick" else 400
        if len(maximal) <= n:
            pick = maximal
        else:
            # half of the sample from the scripts that close and re-open the wallet under the updater, the ones that go on after the
            # re-opening first
            oc = [x for x in maximal if any(c["ev"] == "open" for c in x)]
            oc.sort(key=lambda x: (-sum(1 for i, c in enumerate(x) if c["ev"] == "open" and i < len(x) - 1), rnd.random()))
            cl = [x for x in maximal if any(c["ev"] == "close" for c in x) and x not in oc]
            rest = [x for x in maximal if x not in oc and x not in cl]
            pick = oc[:n // 3] + rnd.sample(cl, min(len(cl), n // 6))
            pick += rnd.sample(rest, min(len(rest), n - len(pick)))
        build_harness(["replay_updater"])
        d = workdir("replay_updater")
        inp, outp = os.path.join(d, "in.json"), os.path.join(d, "events.ndjson")
        json.dump({"scripts": pick}, open(inp, "w"))
        env = dict(os.environ, VERIF_TMP=os.environ.get("VERIF_TMP", os.path.join(HARNESS, "target", "tmp")))
        p = subprocess.run(["timeout", "1500", os.path.join(BIN, "replay_updater"), "--in", inp, "--out", outp], env=env,
                           stdout=subprocess.PIPE, stderr=subprocess.STDOUT, text=True)
        if p.returncode != 0 or not os.path.exists(outp):
            raise ToolError("replay_updater failed: " + p.stdout[-500:])
        tv = run_tlc("TraceUpdater.tla", "TraceUpdater.cfg", "upd_tv", workers=1, env={"TRACE": outp}, timeout=600, depth_first=True,
                     keep_tags=("NONCONF",))
        nc = parse_printed(tv["printed"]["NONCONF"], "NONCONF")
        evs = read_ndjson(outp)
        kinds = {}
        for e in evs:
            kinds[e["ev"]] = kinds.get(e["ev"], 0) + 1
        out.update({"scripts_generated": len(maximal), "scripts_executed": len(pick), "events_validated": len(evs), "event_kinds": kinds,
                    "consumed": tlc_consumed(tv["out"]), "trace_invariants_violated": tv["violated"], "nonconformances": len(nc), "first": nc[:3],
                    "gen_states": g["states"]})
        if nc or tv["violated"] or tlc_consumed(tv["out"]) is None:
            log("NONCONFORMANCE (updater life cycle): %d observed thread events are not steps of spec/Updater.tla; first: %s" % (len(nc), nc[:2]))
        else:
            log("  updater life cycle: %d scripts, %d observed events are a behaviour of spec/Updater.tla (%d model states)" % (len(pick), len(evs), r["states"]))
    except Exception as ex:          # conformance only: never decides the check
        out["error"] = str(ex)[:300]
        log("NONCONFORMANCE (updater life cycle): not evaluated: %s" % out["error"])
    return out


def run(tier, replay_path, t0):
    prop = "C20"
    rnd = random.Random(seed())
    build_s = build_harness(["replay_conc"])
    p = PARAMS
    stats = []
    if replay_path:
        info = json.load(open(replay_path))["info"]
        scen = [info["scenario"]]
        setup = info.get("setup", p["setup"])
    else:
        cfgs = p["quick_cfgs"] if tier == "quick" else p["thorough_cfgs"]
        stats, behs, cex = mc_and_gen(cfgs, tier, 1500)
        nscen = p["quick_scen"] if tier == "quick" else p["thorough_scen"]
        cands = []
        for b in behs:
            for k in (1, 2):
                if len(b) > k and all(e.get("ev") in OPS for e in b[-k:]) and any(e.get("ev") in ("lock", "receive") for e in b[:-k]):
                    cands.append((b[:-k], b[-k:]))
        rnd.shuffle(cands)
        # cover the combinations of op kinds first
        seen, scen = set(), []
        for pre, ops in cands:
            sig = tuple(e["ev"] + ":" + e.get("w", "") for e in ops)
            for rw in ("w1", "w2"):
                for rk in ("refresh", "scan"):
                    key = (sig, rw, rk)
                    if key in seen or len(scen) >= nscen:
                        continue
                    if rk == "scan" and rnd.random() < 0.7:
                        continue
                    seen.add(key)
                    r = {"ev": rk, "w": rw}
                    if rk == "scan":
                        r.update({"start": 1, "del": rnd.random() < 0.5})
                    scen.append({"prefix": pre, "r": r, "ops": ops})
        keep = set(range(len(SCRIPTED))) if tier == "thorough" else {0, 1, 4, 6, 7, 9, 10, 12, 13, 14}
        scen = [dict(x, scripted=True, modelled=(i + 1 if i < 8 else 0)) for i, x in enumerate(SCRIPTED) if i in keep] + scen
        setup = p["setup"]
    # pass 1: count the sections of R in each scenario (no schedules yet)
    nd0 = replay("replay_conc", {"setup": setup, "scenarios": scen}, prop + "_count")
    counts = [e for e in read_ndjson(nd0) if e["ev"] == "conc_scenario"]
    nsched_model_states = nsched_model_trans = 0
    total_sched = 0
    budget = p["quick_sched"] if tier == "quick" else p["thorough_sched"]
    for c in counts:
        sc = scen[c["b"]]
        if replay_path and "sched" in info:
            sc["schedules"] = [info["sched"]]
            continue
        sch, total, st, tr = schedules(int(c["sections"]), len(sc["ops"]), 100000 if sc.get("scripted") else budget, rnd)
        nsched_model_states += st
        nsched_model_trans += tr
        total_sched += total
        sc["schedules"] = sch
    log("  %d scenarios, %d schedules to execute (of %d enumerated by TLC)" % (len(scen), sum(len(s.get("schedules", [])) for s in scen), total_sched))
    nd = replay("replay_conc", {"setup": setup, "scenarios": scen}, prop)
    events = read_ndjson(nd)
    r = run_tlc("TraceConc.tla", "TraceConc.cfg", "tv_C20", workers=1, env={"TRACE": nd}, timeout=1200, depth_first=True, keep_tags=())
    if tlc_consumed(r["out"]) is None:
        log(r["out"][-3000:])
        raise ToolError("TraceConc did not consume the trace")
    tv_out = r["out"]
    # Layer M: the section-level model (spec/ConcWallet.tla, MCConc.tla) predicts, for the
    # modelled scenarios, exactly which schedules are not serializable
    model_stats, mismatches, compared = {}, [], 0
    pred = {}
    if True:
        r = run_tlc("MCConc.tla", "MC_Conc.cfg" if (tier == "thorough" or replay_path) else "MC_Conc_quick.cfg", "mcconc", workers=6, timeout=1200, keep_tags=("SCHEDV", "CEX"), max_keep=100000)
        if not r["completed"]:
            log(r["out"][-2000:])
            raise ToolError("MCConc did not complete")
        for x in parse_printed(r["printed"]["SCHEDV"], "SCHEDV"):
            pred[(x["scen"], tuple(x["at"]))] = x["ser"]
        lemma_broken = any(c.get("inv") == "Lemma_Alone" for c in parse_printed(r["printed"]["CEX"], "CEX"))
        model_stats = {"states": r["states"], "transitions": r["transitions"], "schedules": len(pred),
                       "non_serializable_predicted": sum(1 for v in pred.values() if not v), "lemma_alone_holds": not lemma_broken}
        viols = tlc_printed(tv_out, "VIOL")
        bad_lines = set(v["line"] for v in viols if v["m"] == "Serializable")
        for li, e in enumerate(events, 1):
            if e["ev"] != "conc":
                continue
            m = scen[e["b"]].get("modelled", 0)
            if not m:
                continue
            k = (m, tuple(min(x, e["sections"]) if isinstance(x, int) else x for x in e["sched"]))
            if k in pred:
                compared += 1
                if pred[k] != (li not in bad_lines):
                    mismatches.append({"scen": m, "sched": e["sched"], "model_serializable": pred[k], "observed_serializable": li not in bad_lines})
        log("  section-level model: %d states, %d schedules, %d predicted non-serializable; %d schedules compared with the real code, %d disagree" % (
            r["states"], len(pred), model_stats["non_serializable_predicted"], compared, len(mismatches)))
        if mismatches or lemma_broken:
            log("NONCONFORMANCE: the section-level model and the real code disagree on %d schedules; first: %s" % (len(mismatches), mismatches[:2]))
    keys = {}
    for v in viols:
        e = events[v["line"] - 1]
        if v["m"] == "KeyIndexSerial":
            # a key index no serial order leaves: none of the listed design findings produces that
            key = "C20/KeyIndexSerial/%s" % e["r"]
            if key not in keys:
                keys[key] = {"scenario": dict({k: scen[e["b"]][k] for k in ("prefix", "r", "ops")}, modelled=scen[e["b"]].get("modelled", 0)), "sched": e["sched"],
                             "setup": setup, "opres": e["opres"], "rres": e["rres"], "count": 0, "fields": "idx.child", "opkinds": e["opkinds"]}
            keys[key]["count"] += 1
            continue
        sig, detail = diff_signature(e["final"], e["serials"], e["w"]) if v["m"] == "Serializable" else ("hang", "")
        # the identity of a finding is its root cause, as far as the schedule shows it:
        #  - a block arrived strictly inside a refresh (its sections then use different chain views)
        #  - anything ran strictly inside a scan (scan keeps a chain view and a wallet snapshot across sections)
        #  - otherwise: which tables were clobbered
        inside = [o for o in e["opres"] if isinstance(o.get("at"), int) and 0 < o["at"] < e["sections"]]
        if v["m"] != "Serializable":
            cause = "hang"
        elif e["r"] == "refresh" and any(o["ev"] == "mine" for o in inside):
            cause = "block-arrives-mid-refresh"
        elif e["r"] == "scan" and inside:
            cause = "operation-or-block-mid-scan"
        elif e["r"] == "refresh" and inside and more_log_entries_than_any_serial(e):
            # an operation that refreshes itself (cancel_tx, retrieve_*) ran inside the refresh and the
            # wallet ends with MORE log entries than any serial order gives: both refreshes restored
            # the same missing output (the scan step of update_wallet_state works from a stale snapshot)
            cause = "overlapping-refreshes-restore-twice"
        else:
            cause = sig
        # is this schedule one the section-level model of the pinned code covers, and does the model
        # (= the listed design findings: sections with stale local copies) explain the outcome?
        msc = scen[e["b"]].get("modelled", 0)
        pk = (msc, tuple(min(x, e["sections"]) if isinstance(x, int) else x for x in e["sched"]))
        if cause == "hang":
            key = "C20/%s/%s|hang" % (v["m"], e["r"])
        elif msc and pk in pred:
            key = ("C20/%s/%s|%s" % (v["m"], e["r"], cause)) if (pred[pk] is False and cause != sig) else \
                  ("C20/%s/%s|%s|not-predicted-by-section-model|%s" % (v["m"], e["r"], cause if cause != sig else "no-listed-cause", sig))
        else:
            # not a modelled scenario: the listed findings are matched by their cause alone, except that
            # an outcome in which ONLY a log entry differs from every serial outcome (records and indices
            # agree) is not what differing chain views produce - it is an entry overwritten with a stale copy
            key = "C20/%s/%s|%s" % (v["m"], e["r"], cause) + ("|only-a-log-entry-differs" if sig == "R.txs" and cause != sig else "")
        if key not in keys:
            keys[key] = {"scenario": dict({k: scen[e["b"]][k] for k in ("prefix", "r", "ops")}, modelled=scen[e["b"]].get("modelled", 0)), "sched": e["sched"], "setup": setup,
                         "opres": e["opres"], "rres": e["rres"], "count": 0, "fields": detail, "opkinds": e["opkinds"]}
        keys[key]["count"] += 1
    known, new = classify(prop, keys)
    upd = {} if replay_path else updater_lifecycle(tier, rnd)
    conc = [e for e in events if e["ev"] == "conc"]
    if not replay_path and not conc:
        raise ToolError("no schedule was executed (vacuity guard)")
    kinds = {}
    for e in conc:
        kk = "%s%s|%s" % (e["r"], ":updater" if e.get("via") == "updater" else "", ",".join(e["opkinds"]))
        kinds[kk] = kinds.get(kk, 0) + 1
    cov = {
        "states": sum(s["states"] for s in stats) + nsched_model_states + model_stats.get("states", 0),
        "transitions": sum(s["transitions"] for s in stats) + nsched_model_trans + model_stats.get("transitions", 0),
        "traces_validated_against_impl": len(conc),
        "samples": [{k: e[k] for k in ("r", "w", "opkinds", "sched", "rres", "opres", "sections")} for e in conc[:8]],
        "scenarios": len(scen), "schedules_enumerated_by_tlc": total_sched, "schedules_executed": len(conc),
        "serial_orders_executed": sum(c.get("serial_orders", 0) for c in counts),
        "schedules_by_kind": kinds, "non_serializable": sum(1 for v in viols if v["m"] == "Serializable"),
        "hangs": sum(1 for e in conc if e.get("hang")), "mc_configs": stats,
        "section_model": model_stats, "section_model_schedules_compared": compared, "layer_m_nonconformances": len(mismatches),
        "layer_m_first": mismatches[:3], "harness_build_s": round(build_s, 1), "updater_lifecycle": upd,
        "exhaustive": all(len(s.get("schedules", [])) >= 1 for s in scen) and total_sched == len(conc),
    }
    finish(prop, tier, "model_checking", cov, WALLET_ASSUME, t0, known, new)
