"""C09 Decoding untrusted input never crashes the wallet.

  MC   tlc explores the staged decode pipeline of spec/WireGrammar.tla (MCWireGrammar.tla) for
       every enumerated (chain, instance, layer, field, mutation) case x entry point and checks
       Total / Bounded / Agrees on the model; the same run prints the instances (leaf lists) and
       the cases (GEN).  A second configuration (every unchecked site repaired) checks Total as a
       hard invariant.
  TV   harness/replay_decode materialises every case as bytes from real encodings produced by
       the real code, feeds every real decoder entry point under catch_unwind + watchdog +
       allocation cap, and TLC judges the recorded outcomes (TraceWireGrammar.tla): Layer-P
       monitors (NoPanic, NoAbort, Terminates, BoundedAlloc, RejectLeavesStore) decide,
       Layer-M mismatches (grammar walk, predicted outcome) only print NONCONFORMANCE."""
import json, os, random, time
from common import *

MANIFEST_ENTRY = dict(
    cat="model_checking", ref="DESIGN.md 4 C09, 2.6 (wire grammar)", engine="wiregrammar-tla",
    text="An explicit TLA+ grammar (spec/WireGrammar.tla) describes every external format as nested layers of typed fields "
         "(armored slatepack text, base58check, binary/JSON slatepack, age ciphertext, encrypted metadata, V4 binary and JSON slates, "
         "slatepack/onion addresses, payment-proof JSON, stored-transaction files, JSON-RPC envelopes of both listeners incl. the encrypted owner envelope) "
         "with mutation operators per field kind (for the text frames also runs of discardable filler characters ahead of the header, alone, or before a cut header, with lengths around the size bound), and transcribes the decoders as a staged pipeline state machine. TLC explores the machine for every "
         "(case, entry point) and checks Total (Ok or Err, store untouched), Bounded and agreement with the functional definition; TLC also emits every case. "
         "A Rust harness materialises each case from real encodings produced by the real encoders (re-wrapping validly: lengths, check bytes, encryption to the wallet's key), "
         "runs every real decoder entry point under catch_unwind, a watchdog and an allocation cap in worker processes, and TLC validates the recorded outcomes: "
         "property monitors on the observed data decide the verdict; refinement (observed outcome = outcome predicted by the model; real encodings parse under the grammar) is reported as NONCONFORMANCE only. "
         "Seeded random inputs and random multi-field mutations are judged by the monitors alone.",
    technique="TLC model checking of spec/MCWireGrammar.tla + TLC-generated cases executed on the real decoders + TLC trace validation (spec/TraceWireGrammar.tla)",
    note="Generation from a grammar model: it cannot prove absence of panics for all byte strings (DESIGN.md 5). Trusted: the harness's own guard "
         "(panic hook, allocation counter, watchdog 30 s, cap 768 MiB), the wallet-store digest (outputs, log entries, account paths, stored-tx files), age/ring/secp as libraries. "
         "A JSON-RPC method's own error (result.Err, owner code -32099) counts as 'decoded'; state effects of executed methods are C07's business.")

ASSUME = [
    "the grammar enumerates single-field mutations of the listed instances; multi-field and random inputs are sampled with VERIF_SEED",
    "a run that takes longer than 30 s (6 s once three runs have hung) counts as a hang, more than 768 MiB above the level at its start as unbounded allocation",
    "overflow checks are off as in the shipped build (u32 length underflow wraps and runs into EOF)",
    "the wallet-store digest covers outputs, transaction log, account paths and stored transaction files of the wallet under test",
]

TIERS = {
    "quick": dict(cfg="MC_C09_quick.cfg", rep="MC_C09_repaired_quick.cfg", nmulti=200, njunk=400, mc_timeout=150, tv_timeout=170),
    "thorough": dict(cfg="MC_C09.cfg", rep="MC_C09_repaired.cfg", nmulti=25000, njunk=40000, mc_timeout=600, tv_timeout=1200),
}


def tlc(module, cfg, tag, tags, **kw):
    """run_tlc, collecting every PrintT(<<TAG, json>>) line of the given tags (whatever the
    version of common.run_tlc does with printed lines)"""
    try:
        r = run_tlc(module, cfg, tag, keep_tags=tuple(tags), max_keep=5000000, **kw)
    except TypeError:
        r = run_tlc(module, cfg, tag, **kw)
    printed = {}
    for t in tags:
        if t in r.get("printed", {}):
            printed[t] = tlc_printed("".join(r["printed"][t]), t)
        else:
            printed[t] = tlc_printed(r["out"], t)
    return r, printed


def mc(cfg, tag, timeout):
    r, pr = tlc("MCWireGrammar.tla", cfg, "c09_" + tag, ("INST", "CASE", "CEX"), timeout=timeout)
    if (r["error"] and not r["completed"]) or not r["completed"]:
        log(r["out"][-3000:])
        raise ToolError("TLC failed on " + cfg)
    return r, pr


def validate(nd, timeout):
    """trace validation; Layer M + P, or P alone when evaluating Layer M aborts TLC"""
    kw = dict(workers=1, env={"TRACE": nd}, timeout=timeout, depth_first=True)
    r, pr = tlc("TraceWireGrammar.tla", "TraceWireGrammar.cfg", "tv_C09", ("VIOL", "NONCONF"), **kw)
    m_ok = True
    if tlc_consumed(r["out"]) is None:
        m_ok = False
        r2, pr2 = tlc("TraceWireGrammar.tla", "TraceWireGrammarP.cfg", "tvp_C09", ("VIOL", "NONCONF"), **kw)
        if tlc_consumed(r2["out"]) is None:
            log(r["out"][-2000:])
            log(r2["out"][-2000:])
            raise ToolError("trace validation did not consume the trace")
        return pr2["VIOL"], pr["NONCONF"] + [{"what": "LayerM-evaluation-aborted", "line": -1}], m_ok
    return pr["VIOL"], pr["NONCONF"], m_ok


def binding_selftest(events):
    """corrupt recorded fields of a valid trace: the TLA+ side must reject each one (DESIGN.md 3.4)"""
    import copy
    ok_case = next((e for e in events if e["kind"] == "case" and e["mat"] == "ok" and e["runs"] and all(r["res"] == "ok" for r in e["runs"])), None)
    err_case = next((e for e in events if e["kind"] == "case" and any(r["res"] == "err" and r["pre"] not in ("", "-") for r in e["runs"])), None)
    if not ok_case or not err_case:
        return {"skipped": "no suitable lines"}
    a = copy.deepcopy(ok_case); a["runs"][0]["res"] = "panic"; a["runs"][0]["site"] = "selftest"          # P: NoPanic
    b = copy.deepcopy(err_case)
    k = next(i for i, r in enumerate(b["runs"]) if r["res"] == "err" and r["pre"] not in ("", "-"))
    b["runs"][k]["post"] = "0000000000000000"                                                              # P: RejectLeavesStore
    c = copy.deepcopy(ok_case); c["runs"][0]["res"] = "err"                                                # M: outcome
    d = copy.deepcopy(ok_case); d["runs"][0]["res"] = "hang"                                               # P: Terminates
    d_ = workdir("c09_selftest")
    path = os.path.join(d_, "corrupt.ndjson")
    with open(path, "w") as f:
        for e in (ok_case, a, b, c, d):
            f.write(json.dumps(e) + "\n")
    viols, nonconfs, _ = validate(path, 120)
    got = {(v["line"], v["m"]) for v in viols}
    gotm = {(n["line"], n["what"]) for n in nonconfs}
    want = {(2, "NoPanic"), (3, "RejectLeavesStore"), (5, "Terminates")}
    ok = want <= got and (4, "outcome") in gotm and not any(l == 1 for l, _ in got | gotm)
    if not ok:
        raise ToolError("binding self-test failed: corrupted trace fields were not rejected (%s / %s)" % (sorted(got), sorted(gotm)))
    return {"corruptions_rejected": 4, "monitors": sorted(m for _, m in want) + ["LayerM:outcome"]}


def key_of(v):
    """stable, specific key of a monitor failure"""
    if v["m"] == "NoPanic":
        return "C09/NoPanic/%s" % (v["site"] or ("unknown-site/" + v["ep"]))
    if v["kind"] == "case":
        return "C09/%s/%s/%s.%s.%s:%s" % (v["m"], v["ep"], v["lname"], v["ln"], v["mu"], v["a"])
    return "C09/%s/%s/%s" % (v["m"], v["ep"], v["kind"])


def load_inputs(path):
    m = {}
    if os.path.exists(path):
        for l in open(path):
            try:
                j = json.loads(l)
                m[j["i"]] = j["hex"]
            except Exception:
                pass
    return m


def run(tier, replay_path, t0):
    T = TIERS[tier]
    build_s = build_harness(["replay_decode"])
    stats = []
    if replay_path:
        info = json.load(open(replay_path))["info"]
        inp = info["replay"]
        cex = []
        mcr = None
    else:
        mcr, pr = mc(T["cfg"], "mc", T["mc_timeout"])
        insts, cases, cex = pr["INST"], pr["CASE"], pr["CEX"]
        if not insts or not cases:
            log(mcr["out"][-2000:])
            raise ToolError("TLC generated no cases")
        log("  MC %s: %d distinct states, %d transitions, depth %d; %d instances, %d cases generated; model violates Total in %d runs (%.0fs)" % (
            T["cfg"], mcr["states"], mcr["transitions"], mcr["depth"], len(insts), len(cases), len(cex), mcr["wall_s"]))
        stats.append({"cfg": T["cfg"], "states": mcr["states"], "transitions": mcr["transitions"], "depth": mcr["depth"],
                      "completed": mcr["completed"], "cases": len(cases), "instances": len(insts), "model_cex": len(cex),
                      "wall_s": round(mcr["wall_s"], 1)})
        # the pipeline with every unchecked site repaired must be total (hard invariant)
        rep, _ = mc(T["rep"], "rep", T["mc_timeout"])
        if rep["violated"]:
            log(rep["out"][-3000:])
            raise ToolError("the repaired model violates Total: the specification is inconsistent")
        log("  MC %s: Total, Bounded hold on %d states (%.0fs)" % (T["rep"], rep["states"], rep["wall_s"]))
        stats.append({"cfg": T["rep"], "states": rep["states"], "transitions": rep["transitions"], "depth": rep["depth"],
                      "completed": rep["completed"], "violated": [], "wall_s": round(rep["wall_s"], 1)})
        inp = {"insts": insts, "cases": cases, "nmulti": T["nmulti"], "njunk": T["njunk"], "seed": seed()}

    nd = replay("replay_decode", inp, "C09", timeout=1200)
    events = read_ndjson(nd)
    inputs = load_inputs(nd + ".inputs")
    viols, nonconfs, m_ok = validate(nd, T["tv_timeout"])
    # keys
    by_i = {e["i"]: e for e in events}
    keys = {}
    for v in sorted(viols, key=lambda v: (v["len"], v["line"])):
        k = key_of(v)
        if k not in keys:
            e = by_i.get(v["i"], {})
            rp = None
            if e.get("kind") == "case":
                c = {x: e[x] for x in ("chain", "inst", "layer", "lname", "leaf", "ln", "m", "a")}
                c["eps"] = [r["ep"] for r in e["runs"]]
                rp = {"insts": [x for x in inp["insts"] if x["chain"] == e["chain"] and x["inst"] == e["inst"]],
                      "cases": [c], "nmulti": 0, "njunk": 0, "seed": inp.get("seed", 1)}
            elif v["i"] in inputs:
                rp = {"insts": [], "cases": [], "raws": [{"hex": inputs[v["i"]], "eps": [v["ep"]]}], "nmulti": 0, "njunk": 0,
                      "seed": inp.get("seed", 1)}
            keys[k] = {"monitor": v["m"], "entry_point": v["ep"], "site": v["site"], "msg": v["msg"], "kind": v["kind"],
                       "smallest_input_len": v["len"], "input_hex": inputs.get(v["i"], v["hex"]),
                       "case": {x: v[x] for x in ("chain", "inst", "lname", "ln", "mu", "a")},
                       "count": 0, "entry_points": [], "replay": rp}
        keys[k]["count"] += 1
        if v["ep"] not in keys[k]["entry_points"]:
            keys[k]["entry_points"].append(v["ep"])

    if nonconfs:
        cls = {}
        for n in nonconfs:
            c = "%s %s.%s %s:%s" % (n.get("what"), n.get("lname"), n.get("ln"), n.get("mu"), n.get("a"))
            cls[c] = cls.get(c, 0) + 1
        log("NONCONFORMANCE: %d observed outcomes are not the ones the model predicts (Layer M); classes: %s" % (
            len(nonconfs), json.dumps(dict(sorted(cls.items(), key=lambda x: -x[1])[:8]))))
    # model counter-examples: reproduced on the code?
    cex_rep = {"reproduced": 0, "not_reproduced": 0, "not_run": 0}
    idx = {}
    for e in events:
        if e["kind"] == "case":
            for r in e["runs"]:
                idx[(e["chain"], e["inst"], e["layer"], e["leaf"], e["m"], e["a"], r["ep"])] = r["res"]
    cex_sites = {}
    for c in cex:
        cs = c["case"]
        res = idx.get((cs["chain"], cs["inst"], cs["layer"], cs["leaf"], cs["m"], cs["a"], c["ep"]))
        w = "not_run" if res is None else ("reproduced" if res == "panic" else "not_reproduced")
        cex_rep[w] += 1
        cex_sites.setdefault(c["site"], {"reproduced": 0, "not_reproduced": 0, "not_run": 0})[w] += 1
    if cex:
        log("  model counter-examples to Total: %d reproduced on the real code, %d not reproduced, %d not executed" % (
            cex_rep["reproduced"], cex_rep["not_reproduced"], cex_rep["not_run"]))

    # statistics
    kinds, resc, eps, skipped = {}, {}, {}, 0
    nruns = 0
    for e in events:
        kinds[e["kind"]] = kinds.get(e["kind"], 0) + 1
        if e.get("mat") != "ok":
            skipped += 1
        for r in e["runs"]:
            nruns += 1
            resc[r["res"]] = resc.get(r["res"], 0) + 1
            eps.setdefault(r["ep"], {}).setdefault(r["res"], 0)
            eps[r["ep"]][r["res"]] += 1
    log("  executed %d inputs (%s), %d decoder runs: %s" % (len(events), kinds, nruns, resc))
    if skipped:
        log("NONCONFORMANCE: %d cases could not be materialised" % skipped)
    selftest = binding_selftest(events) if not replay_path else {}
    if selftest.get("corruptions_rejected"):
        log("  binding self-test: %d corrupted trace fields rejected by the TLA+ side" % selftest["corruptions_rejected"])
    known, new = classify("C09", keys)
    samples = []
    for e in events:
        if e["kind"] == "case" and len(samples) < 6 and e["i"] % 97 == 0:
            samples.append({k: e[k] for k in ("chain", "inst", "lname", "ln", "m", "a", "len", "hex")} |
                           {"runs": [{"ep": r["ep"], "res": r["res"]} for r in e["runs"]]})
    if not samples and events:
        e = events[0]
        samples.append({k: e.get(k) for k in ("kind", "chain", "inst", "lname", "ln", "m", "a", "len", "hex")})
    cov = {
        "states": sum(s["states"] for s in stats) or 1,
        "transitions": sum(s["transitions"] for s in stats) or 1,
        "traces_validated_against_impl": len(events),
        "samples": samples,
        "mc_configs": stats,
        "exhaustive": all(s["completed"] for s in stats),
        "cases_generated": len(inp["cases"]),
        "instances": len(inp["insts"]),
        "inputs_executed": kinds,
        "decoder_runs": nruns,
        "results": resc,
        "results_per_entry_point": eps,
        "monitor_failures": len(viols),
        "distinct_violation_keys": len(keys),
        "layer_m_nonconformances": len(nonconfs),
        "layer_m_first": nonconfs[:3],
        "layer_m_evaluated": m_ok,
        "model_counterexamples": {"total": len(cex), **cex_rep, "per_site": cex_sites},
        "not_materialised": skipped,
        "binding_selftest": selftest,
        "harness_build_s": round(build_s, 1),
    }
    finish("C09", tier, "model_checking", cov, ASSUME, t0, known, new)
