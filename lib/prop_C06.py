"""C06 A crash at any point leaves a loadable, consistent, recoverable wallet."""
import json, random
import wallet_checks
from wallet_checks import mc_and_gen, prefix_maximal, select_behaviours, judge, attach_replays
from wallet_common import *
from common import *

MANIFEST_ENTRY = dict(
    cat="fault_enumeration", ref="DESIGN.md 3.5, 4 C06", engine="wallet-tla",
    text="Every operation of Wallet.tla is a step program returning the world state after each persistent effect; TLC checks CrashConsistent on EVERY intermediate state of every operation in every reachable state of the bounded model (Inv_Crash). On the real code, for (prefix, operation) pairs drawn from the model's transitions - plus two directed scan scenarios (a wallet restored from the phrase finding its outputs, the repair after a cancelled-then-mined transaction) - the harness counts the operation's persistent-effect boundaries with the Batch::commit / store_tx hooks, and for every boundary re-runs it from a directory snapshot with a crash (panic at the hook, wallet instance dropped, store re-opened) and with a failing write; TLC judges the re-opened store (CrashConsistent, StoreLoads), the answers of every query (QueriesTotal), that every pending transaction can still be cancelled and that cancelling restores the pre-operation spendable balance (RecoverByCancel), and (Layer M) that the state found equals the model's step k-1 and the number of boundaries equals the length of the step program.",
    technique="TLC model checking of step programs (spec/MCWallet.tla Inv_Crash) + hook-driven crash/fault enumeration on the real code + TLC trace validation (spec/TraceWallet.tla TCrash)",
    note=WALLET_NOTE + " LMDB's own commit atomicity is trusted: a crash is injected immediately before a commit / file create, never inside one; torn stored-transaction files are covered by every truncation length of the file.")

PARAMS = dict(quick_cfgs=["MC_C06_quick.cfg"], thorough_cfgs=["MC_C06.cfg", "MC_C06_b.cfg"], quick_n=40, thorough_n=400,
              setup=STD_SETUP, assumptions=WALLET_ASSUME)
CRASH_OPS = {"init_send", "lock", "receive", "finalize", "cancel", "refresh", "issue_invoice", "process_invoice"}


def run(tier, replay_path, t0):
    prop = "C06"
    rnd = random.Random(seed())
    build_s = build_harness(["replay_crash"])
    p = PARAMS
    if replay_path:
        info = json.load(open(replay_path))["info"]
        cases = [info["case"]]
        stats, all_b = [], []
        setup = info.get("setup", p["setup"])
    else:
        cfgs = p["quick_cfgs"] if tier == "quick" else p["thorough_cfgs"]
        stats, behs, cex = mc_and_gen(cfgs, tier, 1500)
        all_b = [b for b in behs if b and b[-1].get("ev") in CRASH_OPS]
        # stratify by the operation under test (kind, stage, late, wallet): every kind of operation
        # must be crash-enumerated, in several different pre-states each
        groups = {}
        for b in all_b:
            e = b[-1]
            g = (e.get("ev"), e.get("stage", ""), bool(e.get("late")), e.get("w", ""))
            groups.setdefault(g, []).append(b)
        want = p["quick_n"] if tier == "quick" else p["thorough_n"]
        per = max(2, want // max(1, len(groups)))
        chosen = []
        for g in sorted(groups, key=str):
            c, _ = select_behaviours(groups[g], per, rnd)
            chosen += c
        if len(chosen) < want:
            rest = [b for b in all_b if b not in chosen]
            c, _ = select_behaviours(rest, want - len(chosen), rnd)
            chosen += c
        cexb = []
        for c in cex[:20]:
            h = c.get("hist") or []
            if h and h[-1].get("ev") in CRASH_OPS:
                cexb.append(h)
        cases = [{"prefix": b[:-1], "op": b[-1], "modes": ["crash", "fail"]} for b in cexb + chosen]
        # directed: the scan scenarios the statement names - a wallet restored from the phrase finds its outputs
        # (one batch per restored output), and a wallet that cancelled a transaction which was mined after all is
        # repaired (inputs spent, change restored); every boundary of the scan is a crash / failing-write point
        _I = {"ev": "init_send", "w": "w1", "sl": "s1", "amt": 1000}
        _pre = [_I, {"ev": "lock", "w": "w1", "sl": "s1", "stage": "S1"}, {"ev": "receive", "w": "w2", "sl": "s1"},
                {"ev": "finalize", "w": "w1", "sl": "s1", "stage": "S2"}, {"ev": "post", "sl": "s1"}]
        cases += [
            {"prefix": _pre + [{"ev": "mine", "to": "", "txs": ["s1"]}, {"ev": "refresh", "w": "w1"}, {"ev": "restore", "w": "w3", "from": "w1"}],
             "op": {"ev": "scan", "w": "w3", "start": 1, "del": False}, "modes": ["crash", "fail"]},
            {"prefix": _pre + [{"ev": "cancel", "w": "w1", "id": 2}, {"ev": "mine", "to": "", "txs": ["s1"]}],
             "op": {"ev": "scan", "w": "w1", "start": 1, "del": False}, "modes": ["crash", "fail"]},
        ]
        setup = p["setup"]
    log("  crash/fault enumeration of %d (prefix, operation) cases on the real code" % len(cases))
    nd = replay("replay_crash", {"setup": setup, "cases": cases}, prop)
    events = read_ndjson(nd)
    keys, nonconfs, m_ok, others = judge(prop, nd, prop)
    # attach the case to every violation
    for k, info in keys.items():
        b = info["behaviour"]
        info["case"] = cases[b] if isinstance(b, int) and b < len(cases) else None
        info["setup"] = setup
        ev = [e for e in events if e.get("b") == b and e.get("ev") == "crash" and e.get("line", 0) == 0]
    # make keys specific: monitor + info (mode:op:point)
    keys2 = {}
    for k, info in keys.items():
        k2 = k + ":" + str(info.get("info", "")).replace(" ", "_")
        keys2[k2] = info
    truncs = [e for e in events if e.get("ev") == "trunc"]
    crashes = [e for e in events if e.get("ev") == "crash"]
    points = {}
    for e in crashes:
        kk = "%s:%s:%s" % (e["op"]["ev"], e["mode"], e["point"])
        points[kk] = points.get(kk, 0) + 1
    if not replay_path and len(crashes) == 0:
        raise ToolError("no crash point was hit: are the hooks compiled in? (vacuity guard)")
    if nonconfs:
        log("NONCONFORMANCE: %d observed crash states / boundary counts differ from the model's step programs; first: %s" % (
            len(nonconfs), json.dumps(nonconfs[0])[:600]))
    known, new = classify(prop, keys2)
    distinct = len(set((e["b"], e["k"], e["mode"]) for e in crashes))
    cov = {
        "evaluations": len(crashes),
        "distinct_nontrivial": distinct,
        "rule": "one evaluation = one (prefix state, operation, boundary k, mode in {crash, failing write}) executed on the real code from a directory snapshot; distinct = distinct (case, k, mode); non-trivial = the hook fired at boundary k (vacuity guard: at least one)",
        "samples": [{x: e[x] for x in ("op", "k", "n", "mode", "point", "opres", "queries", "recover")} for e in crashes[:6]],
        "states": sum(s["states"] for s in stats), "transitions": sum(s["transitions"] for s in stats),
        "traces_validated_against_impl": len(cases),
        "mc_configs": stats, "exhaustive_model": all(s["completed"] for s in stats) if stats else False,
        "cases_available": len(all_b), "cases_run": len(cases), "crash_points_by_kind": points,
        "hooks_fired": sum(1 for e in crashes if e.get("fired")),
        "truncated_file_probes": sum(e.get("lengths", 0) for e in truncs), "truncated_files": len(truncs),
        "layer_m_nonconformances": len(nonconfs), "layer_m_first": nonconfs[:3],
        "harness_build_s": round(build_s, 1),
    }
    finish(prop, tier, "fault_enumeration", cov, p["assumptions"], t0, known, new)
