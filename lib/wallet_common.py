import json
STD_SETUP = {"nfund": 2, "pad": 3}
WALLET_ASSUME = [
    "LMDB commit atomicity and the file system are trusted below the hook points",
    "secp256k1 / bulletproof / ed25519 implementations are trusted (they are used as oracles)",
    "values are multiples of the unit U = 1e6 nanogrin (fee base set to U); nanogrin-granular arithmetic is checked by C01",
    "the projection alpha (harness/src/world.rs) reads the store through the public WalletBackend trait",
]
WALLET_NOTE = ("Trusted: LMDB commit atomicity, file system, secp256k1/bulletproofs/ed25519; the projection alpha in harness/src/world.rs; "
               "values are whole units of 1e6 nanogrin in protocol traces. The verdict comes only from Layer-P monitors evaluated by TLC on states observed from the real code.")


def with_replay(params, replay_path):
    p = dict(params)
    if replay_path:
        info = json.load(open(replay_path))["info"]
        if info.get("case"):
            p["replay_case"] = info["case"]
            p["extra_behaviours"] = []
        else:
            evs = [e for e in info["events"] if e["ev"] != "reset"]
            p["extra_behaviours"] = [evs]
        p["setup"] = info.get("setup", p["setup"])
        p["quick_cfgs"] = p["thorough_cfgs"] = []
    return p
