"""Regenerates MANIFEST.json from the table below (one entry per claimed property)."""
import json, os, subprocess
V = os.path.dirname(os.path.dirname(os.path.abspath(__file__)))
ids = [json.loads(l)["id"] for l in open(os.path.join(V, "properties.jsonl"))]

import sys, glob, importlib
sys.path.insert(0, os.path.join(V, "lib"))
DEFAULT_NOTE = "see DESIGN.md"
CLAIMED = {}
# only checks listed in lib/registered.txt (maintained by hand, after a check has been
# seen to pass on the unchanged tree) are claimed
REGISTERED = set(open(os.path.join(V, "lib", "registered.txt")).read().split())
for f in sorted(glob.glob(os.path.join(V, "lib", "prop_C*.py"))):
    pid = os.path.basename(f)[5:-3]
    mod = importlib.import_module("prop_" + pid)
    if getattr(mod, "MANIFEST_ENTRY", None) and pid in REGISTERED:
        CLAIMED[pid] = mod.MANIFEST_ENTRY

def main():
    m = json.load(open(os.path.join(V, "MANIFEST.json")))
    checks = []
    for pid in ids:
        if pid not in CLAIMED:
            continue
        c = CLAIMED[pid]
        checks.append({
            "property_id": pid,
            "quick_cmd": "./check %s --tier quick" % pid,
            "thorough_cmd": "./check %s --tier thorough" % pid,
            "evidence_file": "/verif/evidence/%s.json" % pid,
            "replay_cmd_template": "./check %s --replay {path}" % pid,
            "engine": c.get("engine", "wallet-tla"),
            "level_claimed": {"category": c["cat"], "text": c["text"], "design_ref": c["ref"]},
            "level_note": c.get("note", DEFAULT_NOTE),
            "technique": c.get("technique", "explicit TLA+ specification checked with TLC and bound to the code by replay / trace validation"),
        })
    m["checks"] = checks
    old_na = {x["property_id"]: x["reason"] for x in m.get("not_applicable", [])}
    NA = json.load(open(os.path.join(V, "lib", "not_applicable.json")))
    m["not_applicable"] = [{"property_id": i, "reason": NA.get(i, old_na.get(i, "check not built yet (work in progress; see DESIGN.md)"))}
                           for i in ids if i not in CLAIMED]
    engines = {}
    for p in ids:
        if p in CLAIMED:
            engines.setdefault(CLAIMED[p].get("engine", "wallet-tla"), []).append(p)
    m["engines"] = [{"name": k, "serves_properties": v, "path": "spec/, harness/, lib/", "kind_free_text": "TLA+ spec + TLC + Rust replay harness"} for k, v in engines.items() if k != "wallet-tla"] + [
        {"name": "wallet-tla", "path": "spec/Wallet.tla, spec/WalletProps.tla, spec/MCWallet.tla, spec/TraceWallet.tla, harness/", 
         "serves_properties": [p for p in ids if p in CLAIMED and CLAIMED[p].get("engine", "wallet-tla") == "wallet-tla"],
         "kind_free_text": "TLA+ state machine of the wallet (step operators), TLC model checking, behaviour generation, Rust replay harness on real wallets/chain, TLC trace validation"},
    ]
    try:
        heads = subprocess.check_output(["git", "-C", "/repo", "log", "--format=%h %s"], text=True).splitlines()
        m["hooks"]["source_commits"] = [h.split()[0] for h in heads if h.split(" ", 1)[1].startswith("verif:")]
    except Exception:
        pass
    m["notes"] = "See DESIGN.md (section 0 = as-built summary, 0b'' = latest round) and spec/README.md (index of the TLA+ specification family). known_findings.json / known_findings.d list recorded and fixed defects; seeded/ holds the seeded changes and seeded/RESULTS.md which check catches which."
    json.dump(m, open(os.path.join(V, "MANIFEST.json"), "w"), indent=1)

main()
