"""Regenerates MANIFEST.json from the table below (one entry per claimed property)."""
import json, os, subprocess
V = os.path.dirname(os.path.dirname(os.path.abspath(__file__)))
ids = [json.loads(l)["id"] for l in open(os.path.join(V, "properties.jsonl"))]

TLA = "explicit TLA+ spec (spec/Wallet.tla): TLC model-checks the bounded model, TLC-generated behaviours are replayed on the real code, TLC validates the recorded trace (Layer-P monitors + Layer-M refinement)"
WALLET_NOTE = ("Trusted: LMDB commit atomicity, file system, secp256k1/bulletproofs/ed25519; the projection alpha in harness/src/world.rs; "
               "values are whole units of 1e6 nanogrin in protocol traces. The verdict comes only from Layer-P monitors evaluated by TLC on states observed from the real code.")

CLAIMED = {
 "C03": dict(cat="model_checking", ref="DESIGN.md 4 C03",
   text="TLC exhaustively explores all interleavings of init/lock/receive/finalize/cancel/post/mine/refresh over 2 slates (duplicated and re-ordered deliveries included) and checks ExclusiveReservation and ReplayNoEffect on the model; a pair-feature-covering sample of the generated behaviours (every transition of the model prints its history) is executed on real wallets over a real chain and every observed state is judged by the same TLA+ predicates; refinement (Layer M) must hold on the unchanged tree so that the exhaustive result carries over to the code.",
   technique="TLC model checking + TLC-generated behaviours replayed on real code + TLC trace validation"),
}

def main():
    m = json.load(open(os.path.join(V, "MANIFEST.json")))
    checks = []
    for pid in ids:
        if pid not in CLAIMED:
            continue
        c = CLAIMED[pid]
        checks.append({
            "property_id": pid,
            "quick_cmd": "./check %s --tier quick" % pid,
            "thorough_cmd": "./check %s --tier thorough" % pid,
            "evidence_file": "/verif/evidence/%s.json" % pid,
            "replay_cmd_template": "./check %s --replay {path}" % pid,
            "engine": c.get("engine", "wallet-tla"),
            "level_claimed": {"category": c["cat"], "text": c["text"], "design_ref": c["ref"]},
            "level_note": c.get("note", WALLET_NOTE),
            "technique": c.get("technique", TLA),
        })
    m["checks"] = checks
    old_na = {x["property_id"]: x["reason"] for x in m.get("not_applicable", [])}
    NA = json.load(open(os.path.join(V, "lib", "not_applicable.json")))
    m["not_applicable"] = [{"property_id": i, "reason": NA.get(i, old_na.get(i, "check not built yet (work in progress; see DESIGN.md)"))}
                           for i in ids if i not in CLAIMED]
    m["engines"] = [
        {"name": "wallet-tla", "path": "spec/Wallet.tla, spec/WalletProps.tla, spec/MCWallet.tla, spec/TraceWallet.tla, harness/", 
         "serves_properties": [p for p in ids if p in CLAIMED and CLAIMED[p].get("engine", "wallet-tla") == "wallet-tla"],
         "kind_free_text": "TLA+ state machine of the wallet (step operators), TLC model checking, behaviour generation, Rust replay harness on real wallets/chain, TLC trace validation"},
    ]
    try:
        heads = subprocess.check_output(["git", "-C", "/repo", "log", "--format=%h %s"], text=True).splitlines()
        m["hooks"]["source_commits"] = [h.split()[0] for h in heads if h.split(" ", 1)[1].startswith("verif:")]
    except Exception:
        pass
    m["notes"] = "See DESIGN.md. known_findings.json lists recorded and fixed defects."
    json.dump(m, open(os.path.join(V, "MANIFEST.json"), "w"), indent=1)

main()
