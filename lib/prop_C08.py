"""C08 Slate and slatepack encodings round-trip and agree with each other.

  MC   tlc model-checks spec/MCCodecRoundTrip.tla (CodecRoundTrip.tla: abstract slates, the
       field-presence model of every encoding, Dec_e(Enc_e(s)) as operators; properties
       RoundTrip / CrossEqual / AddrRoundTrip / OnionRoundTrip / RecRoundTrip)
  GEN  the same runs print the cases: every one- and two-field deviation from three base
       slates (pairwise covering), a seeded sample of the full product (thorough), all
       addresses, deviations + samples of the stored records; model counter-examples too
  TV   harness/replay_codec pushes every case through the REAL encoders/decoders;
       spec/TraceCodecRoundTrip.tla judges the recorded results: Layer P (the same
       predicates on observed data) decides, Layer M (observed = predicted) only reports.
"""
import json, os, random, time, copy
from concurrent.futures import ThreadPoolExecutor
from common import *

PROP = "C08"

MANIFEST_ENTRY = dict(
    cat="model_checking", ref="DESIGN.md 2.6, 4 C08, Appendix B (Slate equality)", engine="codec-tla",
    text="TLC model-checks an explicit field-presence model of every slate encoding (V4 JSON skip/default rules, V4 binary status bytes and "
         "feature-dependent lock height, slatepack binary/JSON/armored, plain and age-encrypted) for RoundTrip(e, s) and CrossEqual(s) over "
         "all one- and two-field deviations from three base slates, the full product of a reduced domain and (thorough) a seeded sample of the "
         "full product over all optional fields, boundary integers 0/1/2^32/2^40/2^64-1, 0..3 signatures and commitments, the seven states and "
         "kernel features 0..3; TLC prints the cases, a Rust harness builds concrete SlateV4 values (real keys, commitments, bulletproofs, "
         "signatures) and runs them through the real encoders/decoders (serde JSON, byte_ser, Slatepacker with and without recipients, armor), "
         "and TLC judges the recorded decodings with the same predicates (Layer P) and checks that decoded slates, JSON key sets and binary "
         "lengths are exactly what the model predicts (Layer M). Slatepack/onion addresses and stored OutputData/TxLogEntry/Context records "
         "are checked for their own encode/decode in the same way.",
    technique="TLC model checking of spec/MCCodecRoundTrip.tla (operators in spec/CodecRoundTrip.tla) + TLC-generated cases executed on the real "
              "code by harness/replay_codec + TLC trace validation (spec/TraceCodecRoundTrip.tla)",
    note="Trusted: secp256k1/bulletproof/ed25519/age/bech32/serde_json implementations; the projection alpha in harness/src/bin/replay_codec "
         "(reads the decoded Slate's public fields; concrete key/commitment/proof/signature bytes are compared through a hash). 64-bit integers "
         "are the five boundary tags; list lengths stay below the width of their binary count. The verdict comes only from Layer-P predicates "
         "evaluated by TLC on results observed from the real code.")

ASSUME = [
    "secp256k1-zkp, ed25519-dalek, age, bech32, bs58 and serde_json are trusted (they carry the concrete bytes)",
    "64-bit integers are represented by the boundary tags 0, 1, 2^32, 2^40, 2^64-1 (the codecs only test them for zero / low-40-bits zero)",
    "list lengths stay below the width of their binary count (u8 for sigs, u16 for coms); at most 3 entries are generated",
    "the projection alpha of the harness reads the public fields of the decoded Slate / record; key, commitment, proof and signature bytes are compared by hash",
    "slate cases run with Mainnet parameters (slatepack size limits and address prefix of the real network)",
]

TIERS = {
    "quick": dict(gen=["CodecRoundTrip_dev2.cfg", "CodecRoundTrip_aux.cfg"], mc_only=["CodecRoundTrip_full.cfg"]),
    "thorough": dict(gen=["CodecRoundTrip_dev2w.cfg", "CodecRoundTrip_sample.cfg", "CodecRoundTrip_auxw.cfg"], mc_only=["CodecRoundTrip_fullw.cfg"]),
}


def run_mc(cfg, workers):
    r = run_tlc("MCCodecRoundTrip.tla", cfg, "mc_C08_" + cfg.replace(".cfg", ""), workers=workers,
                extra=["-seed", str(seed())], timeout=1200, keep_tags=("CASE", "CEX"), max_keep=10 ** 7)
    if not r["completed"]:
        log(r["out"][-3000:])
        raise ToolError("TLC did not complete on " + cfg)
    cases = parse_printed(r["printed"]["CASE"], "CASE")
    cex = parse_printed(r["printed"]["CEX"], "CEX")
    if len(cases) != r["printed_counts"]["CASE"]:
        raise ToolError("could not parse every generated case of " + cfg)
    classes = sorted(set("/".join(key_of(c["p"], c["e"], c.get("inh") or [], d).split("/")[1:])
                         for c in cex for d in (c.get("diff") or ["unequal"])))
    st = {"cfg": cfg, "states": r["states"], "transitions": r["transitions"], "depth": r["depth"], "completed": r["completed"],
          "cases_printed": len(cases), "model_counterexamples_printed": len(cex), "model_violation_classes": classes,
          "wall_s": round(r["wall_s"], 1)}
    log("  MC %s: %d distinct states, %d transitions, %d cases, model violation classes: %s (%.0fs)" % (
        cfg, r["states"], r["transitions"], len(cases), classes or "none", r["wall_s"]))
    return st, cases, cex


def dedupe(cases):
    seen, out = set(), []
    for c in cases:
        k = json.dumps(c, sort_keys=True)
        if k not in seen:
            seen.add(k)
            out.append(c)
    return out


def trace_validate(ndjson, tag, workers):
    """returns (viols, nonconfs, layer_m_evaluated)"""
    def one(cfg, t):
        r = run_tlc("TraceCodecRoundTrip.tla", cfg, t, workers=workers, env={"TRACE": ndjson}, timeout=1500,
                    keep_tags=("VIOL", "NONCONF"), max_keep=10 ** 7)
        return r, tlc_consumed(r["out"])
    r, consumed = one("TraceCodecRoundTrip.cfg", "tv_" + tag)
    n = sum(1 for _ in open(ndjson))
    if consumed == n:
        return parse_printed(r["printed"]["VIOL"], "VIOL"), parse_printed(r["printed"]["NONCONF"], "NONCONF"), True
    # Layer M could not be evaluated on some observation (or a line got stuck): that is a
    # nonconformance by itself; the verdict comes from Layer P alone
    first = r
    r, consumed = one("TraceCodecRoundTripP.cfg", "tvp_" + tag)
    if consumed != n:
        log(first["out"][-2000:])
        log(r["out"][-3000:])
        raise ToolError("trace validation did not consume the trace (%s of %d lines)" % (consumed, n))
    return (parse_printed(r["printed"]["VIOL"], "VIOL"),
            parse_printed(first["printed"]["NONCONF"], "NONCONF") + [{"line": -1, "b": -1, "ev": "?", "e": "-", "what": "LayerM-evaluation-aborted"}], False)


def key_of(monitor, e, inherited, d):
    """C08/<monitor>/<encoding layer responsible>/<field class>: a slatepack carries the binary slate,
    so a difference the binary slate shows by itself is attributed to 'bin'"""
    if d in inherited:
        e = "json~bin" if monitor == "CrossEqual" else "bin"
    return "%s/%s/%s/%s" % (PROP, monitor, e, d)


def keys_of(viols, events):
    """a finding key per (monitor, responsible encoding layer, differing field class)"""
    keys = {}
    for v in sorted(viols, key=lambda v: (v["b"], v["m"], v["e"])):
        for d in (v.get("diff") or ["unequal"]):
            key = key_of(v["m"], v["e"], v.get("inh") or [], d)
            k = keys.setdefault(key, {"count": 0, "encodings": set(), "case_index": v["b"], "kind": v["ev"]})
            k["count"] += 1
            k["encodings"].add(v["e"])
    for key, k in keys.items():
        ev = events[k["case_index"]]
        k["encodings"] = sorted(k["encodings"])
        k["case"] = {"kind": ev["ev"], "a": ev["in"]}
        k["observed"] = {e: {x: r.get(x) for x in ("res", "dec", "detail", "sender") if x in r} for e, r in ev.get("enc", {}).items()
                         if e in k["encodings"] or any(e in x for x in k["encodings"])}
        k["original"] = ev.get("orig")
    return keys


def self_test(events, workers):
    """binding self-test: corrupt one recorded field of a valid line; TLC must reject it
    (Layer P for a decoded value, Layer M for a wire shape)"""
    base = None
    for ev in events:
        if ev["ev"] == "slate" and all(r.get("res") == "ok" and r.get("dec") == ev["orig"] for r in ev["enc"].values()):
            base = ev
            break
    if base is None:
        return {"ran": False}
    a = copy.deepcopy(base)
    a["enc"]["pkarmor.enc"]["dec"]["amt"] = "1" if a["orig"]["amt"] != "1" else "P32"
    b = copy.deepcopy(base)
    b["enc"]["json"]["wire"]["keys"] = [k for k in b["enc"]["json"]["wire"]["keys"] if k != "sta"]
    c = copy.deepcopy(base)
    c["enc"]["bin"]["h"] = "0" * 24
    d = workdir("selftest_C08")
    p = os.path.join(d, "corrupt.ndjson")
    with open(p, "w") as f:
        for i, x in enumerate([base, a, b, c]):
            x["b"] = i
            f.write(json.dumps(x) + "\n")
    viols, nonconfs, _ = trace_validate(p, "C08_selftest", workers)
    got = {
        "clean_line_accepted": not any(v["b"] == 0 for v in viols) and not any(n["b"] == 0 for n in nonconfs),
        "corrupt_decoded_value_rejected_by_P": any(v["b"] == 1 and v["m"] == "RoundTrip" and v["e"] == "pkarmor.enc" for v in viols),
        "corrupt_wire_keys_rejected_by_M": any(n["b"] == 2 and n["what"] == "JsonKeys" for n in nonconfs),
        "corrupt_material_hash_rejected_by_P": any(v["b"] == 3 and "material" in (v.get("diff") or []) for v in viols),
    }
    got["ran"] = True
    if not all(got.values()):
        raise ToolError("binding self-test failed: %s" % got)
    return got


def field_coverage(cases):
    cov = {}
    for c in cases:
        if c["kind"] != "slate":
            cov.setdefault("kind", {}).setdefault(c["kind"], 0)
            cov["kind"][c["kind"]] += 1
            continue
        for f, v in c["a"].items():
            if f == "sigs":
                v = "".join("T" if x["part"] else "F" for x in v) or "-"
            elif f == "coms":
                v = "none" if not v["some"] else ("".join(("O" if x["k"] == "out" else "I") + ("c" if x["cb"] else "") for x in v["items"]) or "empty")
            cov.setdefault(f, {}).setdefault(str(v), 0)
            cov[f][str(v)] += 1
    return cov


def run(tier, replay_path, t0):
    rnd = random.Random(seed())
    build_s = build_harness(["replay_codec"])
    stats, cases, cex = [], [], []
    if replay_path:
        info = json.load(open(replay_path))["info"]
        cases = [info["case"]]
    else:
        cfgs = TIERS[tier]["gen"] + TIERS[tier]["mc_only"]
        w = max(2, MC_WORKERS // 2)
        with ThreadPoolExecutor(max_workers=2) as ex:
            for st, cs, cx in ex.map(lambda c: run_mc(c, w), cfgs):
                stats.append(st)
                cases += cs
                cex += cx
        cases = dedupe(cases)
    model_classes = sorted(set(x for s in stats for x in s["model_violation_classes"]))

    def execute(cases):
        log("  replaying %d cases on the real code (%d slates, %d addresses/records)" % (
            len(cases), sum(1 for c in cases if c["kind"] == "slate"), sum(1 for c in cases if c["kind"] != "slate")))
        t1 = time.time()
        nd = replay("replay_codec", {"seed": seed(), "cases": cases}, PROP)
        events = read_ndjson(nd)
        if len(events) != len(cases):
            raise ToolError("harness returned %d lines for %d cases" % (len(events), len(cases)))
        t2 = time.time()
        viols, nonconfs, m_ok = trace_validate(nd, PROP, MC_WORKERS)
        log("  stages: replay %.0fs, trace validation %.0fs" % (t2 - t1, time.time() - t2))
        return events, viols, nonconfs, m_ok

    log("  build %.0fs, model checking + generation %.0fs" % (build_s, time.time() - t0 - build_s))
    events, viols, nonconfs, m_ok = execute(cases)
    shown = set("/".join(k.split("/")[1:]) for k in keys_of(viols, events))
    unexplained = [c for c in model_classes if c not in shown]
    if unexplained:
        # a model counter-example of a class the generated cases did not show on the real code is
        # replayed on the real code before anything is concluded from it (DESIGN.md 3.7)
        extra = {}
        for c in sorted(cex, key=lambda c: json.dumps(c["case"], sort_keys=True)):
            for d in (c.get("diff") or ["unequal"]):
                k = "/".join(key_of(c["p"], c["e"], c.get("inh") or [], d).split("/")[1:])
                if k in unexplained and k not in extra:
                    extra[k] = c["case"]
        log("  model counter-example classes not shown by the generated cases: %s; replaying their %d cases" % (unexplained, len(extra)))
        cases = dedupe(cases + list(extra.values()))
        events, viols, nonconfs, m_ok = execute(cases)
    hp = [n for n in nonconfs if n.get("what") == "harness-panic"]
    if hp:
        raise ToolError("the harness itself panicked on %d cases; first: %s" % (len(hp), hp[0]))
    keys = keys_of(viols, events)
    st = self_test(events, MC_WORKERS) if not replay_path else {"ran": False}
    if nonconfs:
        log("NONCONFORMANCE: %d observations are not what the model predicts (Layer M); first: %s" % (len(nonconfs), json.dumps(nonconfs[0])[:600]))
    # model vs. code: which violation classes did the model predict, which did the code show
    code_classes = sorted(set("/".join(k.split("/")[1:]) for k in keys))
    not_reproduced = [c for c in model_classes if c not in code_classes]
    if not_reproduced and not replay_path:
        log("NONCONFORMANCE: the model violates the property in classes the real code does not show (the model is wrong there, or a fix "
            "went in and a switch of spec/CodecRoundTrip.tla was not flipped): %s" % not_reproduced)
    known, new = classify(PROP, keys)
    res_kinds = {}
    panics = 0
    for ev in events:
        for e, r in ev.get("enc", {}).items():
            k = "%s:%s:%s" % (ev["ev"], e, r.get("res"))
            res_kinds[k] = res_kinds.get(k, 0) + 1
            panics += 1 if "panic" in str(r.get("res")) else 0
    slates = [c for c in cases if c["kind"] == "slate"]
    witness = {
        "slates_with_nrd_args": sum(1 for c in slates if c["a"]["feat"] == 3 and c["a"]["fargs"] != "none"),
        "slates_with_height_lock": sum(1 for c in slates if c["a"]["feat"] == 2),
        "slates_with_more_than_255_participants": sum(1 for c in slates if len(c["a"]["sigs"]) > 255),
        "slates_with_all_optionals_default": sum(1 for c in slates if c["a"]["amt"] == "0" and c["a"]["fee"] == "0" and c["a"]["ttl"] == "0" and c["a"]["np"] == 2),
        "encrypted_decodings_with_sender_recovered": sum(1 for ev in events if ev["ev"] == "slate" for e, r in ev["enc"].items()
                                                         if e.endswith(".enc") and r.get("res") == "ok" and r.get("sender") == "same"),
        "records_with_subsecond_reverted_after": sum(1 for c in cases if c["kind"] == "txlog" and c["a"]["reverted"] == "frac"),
        "layer_p_violation_lines": len(viols),
    }
    if not replay_path:
        # vacuity guard: the interesting classes must have been generated and executed
        empty = [k for k, v in witness.items() if v == 0 and k != "layer_p_violation_lines"]
        if empty:
            raise ToolError("vacuity guard: no case of class %s was generated" % empty)
    cov = {
        "states": sum(s["states"] for s in stats) or 1,
        "transitions": sum(s["transitions"] for s in stats) or 1,
        "traces_validated_against_impl": len(events),
        "samples": [{"case": cases[i], "observed_original": events[i].get("orig"),
                     "decoded": {e: r.get("dec", r.get("res")) for e, r in events[i].get("enc", {}).items()}}
                    for i in sorted(rnd.sample([i for i, c in enumerate(cases) if len(c["a"].get("sigs", [])) <= 3] or [0], min(4, len(cases))))],
        "exhaustive": bool(stats) and all(s["completed"] for s in stats),
        "mc_configs": stats,
        "cases_replayed": len(cases),
        "slate_cases": len(slates),
        "encode_decode_executions": sum(len(ev.get("enc", {})) for ev in events),
        "results_by_kind_encoding": res_kinds,
        "panics_observed": panics,
        "field_value_coverage": field_coverage(cases),
        "witness_counts": witness,
        "model_violation_classes": model_classes,
        "code_violation_classes": code_classes,
        "code_violation_classes_not_predicted_by_model": [c for c in code_classes if c not in model_classes and not replay_path],
        "model_violation_classes_not_reproduced_by_code": [] if replay_path else not_reproduced,
        "layer_m_evaluated": m_ok,
        "layer_m_nonconformances": len(nonconfs),
        "layer_m_first": nonconfs[:3],
        "binding_self_test": st,
        "harness_build_s": round(build_s, 1),
    }
    finish(PROP, tier, "model_checking", cov, ASSUME, t0, known, new)
