"""C01 Sender-side transaction construction conserves value.

  MC   tlc enumerates every case of the bounded domain of spec/MCSelection.tla
       (wallets x InitTxArgs x flows) and evaluates Selection!Contract on what
       the transcription of the pinned code (SelectRef, variant Orig) and of
       the patched code (AllFixed) predict; model counter-examples (CEX) are
       stimulus, never verdicts
  GEN  the same run prints the seeded sample of the cases as JSON (CASE)
  TV   harness/replay_select executes the cases on the real code (injected
       output table, static node, fee base 1) and TLC validates the recorded
       outcomes under spec/TraceSelection.tla: Layer-P monitors decide,
       Layer-M mismatches are NONCONFORMANCE only."""
import concurrent.futures, json, os, random, re, time
from common import *

MANIFEST_ENTRY = dict(
    cat="model_checking", ref="DESIGN.md 2.4, 4 C01", engine="selection-tla",
    text="TLC enumerates every case of a bounded input domain (wallets of <=3 (quick) / <=4 (thorough) outputs over a value grid around the fee multiples at fee base 1, all statuses, coinbase / heights / lock heights around the tip, two accounts; amounts exhaustive for small wallets, else the boundary sets that put the change at -1..n^2 and amount+fee around u64::MAX; both strategies; 0..3 change outputs; max_outputs 0/1/2/500; 0..3 minimum confirmations; amount-includes-fee; send, late-locked send incl. finalisation, paying an invoice) and evaluates the contract (conservation, eligibility of every input, minimum fee for the final shape, change count, nothing reserved on Err, no panic/hang/wrap) on the line-by-line TLA+ transcription of selection.rs - for the pinned code and for the patched code; a seeded sample of the enumerated cases plus every model counter-example is executed on the real code (owner::init_send_tx, foreign::finalize_tx for late lock, owner::process_invoice_tx on an LMDB wallet with an injected output table) and every observed outcome is judged by the same TLA+ predicates; the observed outcome must equal the transcription's prediction (Layer M), which is what carries the exhaustive model result over to the code.",
    technique="TLC enumeration/model checking of spec/MCSelection.tla (Selection.tla) + TLC-generated cases executed on the real code (harness replay_select) + TLC trace validation (spec/TraceSelection.tla)",
    note="Trusted: LMDB, secp256k1/bulletproofs; the harness injects the output table directly and fakes a static node so that the refresh preceding selection is the identity (refresh itself is C04's business); values are exact nanogrin at fee base 1; amounts near u64::MAX use the order-preserving two-region map of Selection.tla (sound because the code only adds/subtracts/compares user amounts). The verdict comes only from Layer-P monitors evaluated by TLC on outcomes observed from the real code.")

ASSUME = [
    "the refresh that precedes selection is the identity on the injected output table (static node reporting exactly the injected Unspent/Locked outputs); refresh correctness is C04",
    "fee base 1 (set_local_accept_fee_base(1)): Fee(i,o,k) = i + 21*o + 3*k nanogrin",
    "u64 values are either < 2^27 or within 2^27 of u64::MAX (two-region map); the code never multiplies or divides a user amount",
    "harness built with overflow-checks off (shipped semantics): a wrap is judged by the value monitors, not by a debug panic",
    "secp256k1 / bulletproofs / LMDB are trusted",
]

# wall: the tier's budget in seconds; reserve: what trace validation and reporting need at the end.
# The harness is given the time that is left (it runs the cases in the order given and stops
# handing out new ones when the time is up), so the wall time does not depend on the machine's load;
# the number of cases actually executed is measured and reported.
TIERS = {
    "quick": dict(cfg="MCSelection_quick.cfg", mc_timeout=110, tv_chunks=8, wall=170, reserve=35, cex_per_key=4),
    "thorough": dict(cfg="MCSelection_thorough.cfg", mc_timeout=780, tv_chunks=12, wall=1440, reserve=150, cex_per_key=12),
}


def make_cfg(template, tag):
    """the MC config with Seed = VERIF_SEED"""
    src = open(os.path.join(SPEC, template)).read()
    src = re.sub(r"Seed\s*=\s*\d+", "Seed = %d" % (seed() % 100000), src)
    d = os.path.join(WORK, "cfg_C01")
    os.makedirs(d, exist_ok=True)
    p = os.path.join(d, tag + ".cfg")
    with open(p, "w") as f:
        f.write(src)
    return p


def case_key(c):
    return json.dumps(c, sort_keys=True)


def split_trace(nd, n, tag):
    lines = [l for l in open(nd) if l.strip()]
    n = max(1, min(n, (len(lines) + 199) // 200))
    d = workdir("tvsplit_" + tag)
    size = (len(lines) + n - 1) // n
    parts = []
    for k in range(n):
        chunk = lines[k * size:(k + 1) * size]
        if not chunk:
            continue
        p = os.path.join(d, "part%d.ndjson" % k)
        with open(p, "w") as f:
            f.writelines(chunk)
        parts.append((p, k * size))
    return parts


def validate(nd, tag, chunks):
    parts = split_trace(nd, chunks, tag)
    viols, nonconfs, variants, skips = [], [], [], []
    m_ok = True

    def tv(cfg, p, t):
        r = run_tlc("TraceSelection.tla", cfg, t, workers=1, env={"TRACE": p}, timeout=1500, depth_first=True,
                    keep_tags=("VIOL", "NONCONF", "VARIANT", "SKIP"), max_keep=1000000)
        return r, tlc_consumed(r["out"])

    def one(pk):
        p, off = pk
        r, consumed = tv("TraceSelection.cfg", p, "tv_%s_%d" % (tag, off))
        ok = True
        extra_nc = []
        if consumed is None:
            # Layer M evaluation aborted TLC: a nonconformance of its own; re-judge with Layer P alone
            ok = False
            extra_nc = [{"line": -1, "i": -1, "what": "LayerM-evaluation-aborted", "tail": r["out"][-600:]}]
            r, consumed = tv("TraceSelectionP.cfg", p, "tvp_%s_%d" % (tag, off))
            if consumed is None:
                log(r["out"][-3000:])
                raise ToolError("trace validation did not consume the trace")
        pr = r["printed"]
        return (parse_printed(pr["VIOL"], "VIOL"), parse_printed(pr["NONCONF"], "NONCONF") + extra_nc, ok,
                parse_printed(pr["VARIANT"], "VARIANT"), parse_printed(pr["SKIP"], "SKIP"))

    with concurrent.futures.ThreadPoolExecutor(max_workers=len(parts)) as ex:
        for v, nc, ok, var, sk in ex.map(one, parts):
            viols += v
            nonconfs += nc
            variants += var
            skips += sk
            m_ok = m_ok and ok
    return viols, nonconfs, variants, skips, m_ok


def run(tier, replay_path, t0):
    rnd = random.Random(seed())
    T = TIERS[tier]
    build_s = build_harness(["replay_select"])
    mc = None
    cex, fixcex, sampled, first = [], [], [], []
    if replay_path:
        info = json.load(open(replay_path))["info"]
        stim = info["cases"]
    else:
        cfg = make_cfg(T["cfg"], tier)
        mc = run_tlc("MCSelection.tla", cfg, "mc_C01_" + tier, timeout=T["mc_timeout"],
                     keep_tags=("CASE", "CEX", "FIXCEX"), max_keep=1000000)
        if not mc["completed"]:
            log(mc["out"][-3000:])
            raise ToolError("TLC did not complete the enumeration of MCSelection (%s)" % T["cfg"])
        cex = parse_printed(mc["printed"]["CEX"], "CEX")
        fixcex = parse_printed(mc["printed"]["FIXCEX"], "FIXCEX")
        sampled = parse_printed(mc["printed"]["CASE"], "CASE")
        log("  MC %s: %d cases enumerated (%d states), %d model counter-examples printed (%d keys), %d against the patched design, %d cases sampled as stimulus (%.0fs)" % (
            T["cfg"], mc["states"], mc["states"], len(cex), len(set((x["m"], x["cl"]) for x in cex)), len(fixcex), len(sampled), mc["wall_s"]))
        # stimulus: model counter-examples first (at most cex_per_key of every key, smallest wallets
        # first), then the sample in seeded random order
        order = list(sampled)
        rnd.shuffle(order)
        per_key = {}
        for x in sorted(cex + fixcex, key=lambda x: (len(x["c"]["outs"]), case_key(x["c"]))):
            per_key.setdefault((x["m"], x["cl"]), []).append(x["c"])
        first = [c for k in sorted(per_key) for c in per_key[k][:T["cex_per_key"]]]
        seen, stim = set(), []
        for c in first + order:
            k = case_key(c)
            if k not in seen:
                seen.add(k)
                stim.append(c)
    if not stim:
        raise ToolError("no stimulus")
    budget = max(15, int(T["wall"] - T["reserve"] - (time.time() - t0)))
    log("  executing up to %d cases on the real code (time budget %ds)" % (len(stim), budget))
    nd = replay("replay_select", {"cases": stim}, "C01", extra_args=["--timeout-ms", "4000", "--budget-ms", str(budget * 1000)],
                timeout=budget + 60)
    events = read_ndjson(nd)
    if not events or any(case_key(e["c"]) != case_key(stim[e["i"]]) for e in events):
        raise ToolError("the harness did not echo the cases it was given")
    ncex = len(first) if not replay_path else 0
    if len(events) < min(len(stim), ncex):
        raise ToolError("the time budget did not even cover the model counter-examples")
    log("  %d cases executed" % len(events))
    viols, nonconfs, variants, skips, m_ok = validate(nd, "C01", T["tv_chunks"])
    if skips:
        raise ToolError("the harness could not run %d cases: %s" % (len(skips), skips[0]))
    by_i = {e["i"]: e for e in events}
    keys = {}
    for v in sorted(viols, key=lambda v: v["i"]):
        key = "C01/%s/%s" % (v["m"], v["cl"])
        k = keys.setdefault(key, {"count": 0, "cases": [], "observed": []})
        k["count"] += 1
        if len(k["cases"]) < 3:
            e = by_i[v["i"]]
            k["cases"].append(e["c"])
            k["observed"].append(e["o"])
    if nonconfs:
        log("NONCONFORMANCE: %d observed outcomes are not what the transcription predicts (Layer M); first: %s" % (
            len(nonconfs), json.dumps(nonconfs[0])[:1500]))
    fixes_needed = {}
    for v in variants:
        f = v["fixes"] if isinstance(v["fixes"], str) else ",".join(sorted(v["fixes"]))
        fixes_needed[f] = fixes_needed.get(f, 0) + 1
    if variants:
        log("  Layer M: %d outcomes match the PATCHED transcription only (fix flags: %s)" % (len(variants), fixes_needed))
    if fixcex:
        log("NONCONFORMANCE: the patched design violates the contract in the model on %d printed cases; first: %s" % (len(fixcex), json.dumps(fixcex[0])[:800]))
    known, new = classify("C01", keys)
    kinds, fams = {}, {}
    wit = {"ok_with_change_split": 0, "ok_no_change": 0, "err_notenough": 0, "late_finalized_ok": 0, "near_u64max": 0, "ineligible_present": 0}
    for e in events:
        c, o = e["c"], e["o"]
        kk = "%s:%s%s" % (c["flow"], o["res"], (":" + o["errc"]) if o["errc"] else "")
        kinds[kk] = kinds.get(kk, 0) + 1
        fams[c["fam"]] = fams.get(c["fam"], 0) + 1
        if o["res"] == "ok" and len(o["change"]) >= 2:
            wit["ok_with_change_split"] += 1
        if o["res"] == "ok" and c["flow"] != "late" and len(o["change"]) == 0:
            wit["ok_no_change"] += 1
        if o["res"] == "err" and o["errc"] == "notenough":
            wit["err_notenough"] += 1
        if o["fin"]["on"] and o["fin"]["res"] == "ok":
            wit["late_finalized_ok"] += 1
        if c["amt"] >= 134217728:
            wit["near_u64max"] += 1
        if any(x["st"] != "Unspent" or x["cb"] or x["acct"] != c["src"] for x in c["outs"]):
            wit["ineligible_present"] += 1
    cov = {
        "states": mc["states"] if mc else 0,
        "transitions": mc["transitions"] if mc else 0,
        "traces_validated_against_impl": len(events),
        "samples": [{"case": e["c"], "observed": {k: e["o"][k] for k in e["o"] if k != "detail"}} for e in rnd.sample(events, min(6, len(events)))],
        "exhaustive": bool(mc and mc["completed"]),
        "mc_config": T["cfg"] if mc else None,
        "mc_wall_s": round(mc["wall_s"], 1) if mc else 0,
        "model_counterexample_keys": sorted(set("%s/%s" % (x["m"], x["cl"]) for x in cex)),
        "model_counterexamples_against_patched_design": len(fixcex),
        "cases_sampled": len(sampled),
        "cases_executed": len(events),
        "cases_by_family": fams,
        "outcome_kinds": kinds,
        "vacuity_witnesses": wit,
        "layer_p_violation_keys": {k: v["count"] for k, v in keys.items()},
        "layer_m_nonconformances": len(nonconfs),
        "layer_m_first": nonconfs[:2],
        "layer_m_matches_patched_only": fixes_needed,
        "layer_m_evaluated": m_ok,
        "harness_build_s": round(build_s, 1),
    }
    finish("C01", tier, "model_checking", cov, ASSUME, t0, known, new)
